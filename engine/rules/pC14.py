"""C14 — time allocation never exceeds what the clock allows: limit clauses C14-CAP, C14-EXACT, C14-USE,
C14-WIRE (DESIGN.md §3). The wall-clock clause is not decided (timing)."""
from facts import (norm, show, walk, strip_refs, deep_strip, is_call_to, callee_name, find_calls, guard_conditions,
                   cmp_op, const_str, substitute_args, decision_paths)
import pC05
import shared_mutants

EXPLANATION = (
    "Decides the limit clauses of C14 by dataflow and constants, not the wall-clock clause: (CAP) in the clocks arm "
    "both limits are min(base*k, cap) of the same base with 0 <= k_soft <= k_hard, and cap = remaining*c with "
    "0 < c <= 0.5 where remaining = max(clock - overhead, overhead) of the side to move's own clock (so hard <= half "
    "the remaining time after overhead and soft <= hard, by monotonicity of min); (EXACT) a fixed move time is stored "
    "unchanged in both limits; (USE) should_stop compares elapsed time with the hard limit and "
    "should_start_new_search with the soft limit, per time-control arm; (WIRE) the UCI tokens wtime/btime/winc/binc/"
    "movestogo/movetime reach, through parser, go handler and TimeStrategy::new, the clock / increment of the matching "
    "colour."
)

TS = "engine::search::time_control::TimeStrategy"


def run(fx, rep, tier):
    new = fx.one("TimeStrategy::new")
    try:
        info = analyse_new(fx, rep, new)
    except LimitsNotLocated as e:
        info = None
        rep.notes.append(f"C14-CAP / C14-EXACT / C14-WIRE: {e}; not decided")
    if info is not None:
        rule_cap(fx, rep, new, info)
        rule_exact(fx, rep, new, info)
    rule_use(fx, rep)
    if info is not None:
        rule_wire(fx, rep, new, info)
    rule_select(fx, rep)
    rule_poll(fx, rep)
    rule_overhead(fx, rep)


def table_pass_in(fx, names):
    """[(body, why)] for the transposition-table methods / closures among `names` that contain a loop or a bulk operation over
    the slot vector"""
    out = []
    for nm in sorted(names):
        b = fx.bodies[nm]
        if "transposition_table::TranspositionTable" not in norm(nm) or b.kind not in ("AssocFn", "Closure"):
            continue
        live = b.live_blocks()
        loops = any(i in b.reachable(j) for i in live for j in b.succ(i))
        bulk = [norm(callee_name(t) or "").split("::")[-1] for bb, t in b.calls()
                if norm(callee_name(t) or "").split("::")[-1] in ("fill", "for_each", "resize", "clear", "iter_mut", "chunks_mut", "chunks_exact_mut", "fill_with", "extend", "collect", "shrink_to_fit", "truncate", "retain", "into_iter", "iter") and
                t["args"] and any(isinstance(x, tuple) and len(x) == 3 and x[0] == "field" and x[2] == "data" for x in walk(b.expr(t["args"][0], expand_named=True, at=bb)))]
        if loops or bulk:
            out.append((b, "a loop" if loops else f"`{bulk[0]}` over the slot vector"))
    return out


def rule_overhead(fx, rep):
    """C14-OVERHEAD. "After subtracting the configured move overhead": the value TimeStrategy::new subtracts is the
    `move_overhead` field of EngineOptions, so the configured value must survive until the search - who-may-write: the field is
    assigned only by the Move Overhead option's own setter, and no function overwrites a whole EngineOptions through a reference
    (`*options = EngineOptions { hash_size, ..Default::default() }` in another option's setter silently resets the overhead to 0
    when the options arrive in the other order)."""
    n, ok = 0, True
    seen_field = False
    for b in fx.fn_bodies():
        nb = norm(b.name)
        if "::tests::" in nb:
            continue
        sites = []
        for bb, j, st in b.stmts():
            if st["k"] != "assign" or not st["lhs"].get("p"):
                continue
            pr = st["lhs"]["p"]
            last = pr[-1]
            base_ty = b.local_ty(st["lhs"]["l"])
            if isinstance(last, dict) and last.get("n") == "move_overhead" and "EngineOptions" in base_ty:
                sites.append(("field", st.get("line")))
            elif pr == ["*"] and base_ty.replace("&mut ", "").replace("&", "").strip().endswith("options::EngineOptions"):
                # a functional update that copies the old overhead back (`EngineOptions { hash_size, ..*options }`) keeps it
                keeps = False
                rv, abb = st["rv"], bb
                if rv["k"] == "use" and "pl" in rv["op"] and not rv["op"]["pl"].get("p"):
                    ds = b.defs().get(rv["op"]["pl"]["l"], [])
                    if len(ds) == 1 and ds[0][0] == "stmt":
                        rv, abb = ds[0][3]["rv"], ds[0][1]
                if rv["k"] == "agg" and "move_overhead" in (rv.get("fields") or []):
                    e = b.expr(rv["ops"][rv["fields"].index("move_overhead")], expand_named=True, at=abb)
                    keeps = any(isinstance(x, tuple) and x and x[0] == "field" and x[2] == "move_overhead" and
                                any(isinstance(y, tuple) and len(y) >= 2 and y[0] == "arg" and y[1] == st["lhs"]["l"] for y in walk(x[1])) for x in walk(e))
                if not keeps:
                    sites.append(("whole", st.get("line")))
        for bb, t in b.calls():
            d = t.get("dest") or {}
            if d.get("p") == ["*"] and b.local_ty(d["l"]).replace("&mut ", "").strip().endswith("options::EngineOptions"):
                sites.append(("whole", t.get("line")))
        for kind, line in sites:
            n += 1
            seen_field = seen_field or kind == "field"
            good = kind == "field" and "MoveOverhead" in nb
            rep.obligation(good)
            if not good:
                ok = False
                what = "assigns `move_overhead`" if kind == "field" else "overwrites a whole `EngineOptions` through a reference"
                rep.violation("C14-OVERHEAD", f"C14-OVERHEAD/{nb.split('::')[-2] if '::' in nb else nb}/{kind}", f"`{b.name}` (line {line}) {what}: a Move Overhead configured earlier is lost, the limit computed by "
                              "TimeStrategy::new no longer leaves the overhead the GUI asked for and move + overhead can exceed the clock", {"fn": b.name, "file": b.file, "line": line})
    if not seen_field:
        rep.notes.append("C14-OVERHEAD: no assignment to an `EngineOptions.move_overhead` field found; clause not decided")
    rep.rule("C14-OVERHEAD", n, 0, ok, "the configured move overhead is written only by its own setter")


def pC04_exempt(fx):
    import pC04
    return pC04.exempt_roots(fx)


def rule_poll(fx, rep):
    """The limits only bind if they are polled: both search functions (negamax and quiescence - a single quiescence tree can be
    arbitrarily large) consult TimeStrategy::should_stop on entry and abort on it. This is the C09-POLL clause, re-reported here
    as the premise of "returns its move before the clock runs out" (seed C14-4a); the wall-clock statement itself stays undecided."""
    import core
    import pC09
    sub = type(rep)(rep.prop, rep.tier)
    q = core.QUIET
    core.QUIET = True
    try:
        pC09.rule_poll(fx, sub)
    finally:
        core.QUIET = q
    vs = [v for v in sub.violations if v["key"].startswith("C09-POLL")]
    for v in vs:
        rep.violation("C14-POLL", v["key"].replace("C09-POLL", "C14-POLL"), v["msg"] + " (the time limits are then not honoured inside that part of the tree)", v["site"])
    rep.obligations += sub.obligations
    rep.discharged += sub.discharged
    # ... and nothing in the search's cone makes an unpolled pass over the whole transposition table: the clock is started by the
    # go handler before search::search runs, the table has up to 2^26 slots, and a pass over it (reset, resize, any loop or
    # bulk operation over the slot vector) takes longer than a short time limit (seed C14-6a: the table wiped from
    # new_generation() whenever the 8-bit generation counter wraps)
    search = fx.one("engine::search::search")
    cone = fx.cone([search.name], stop=pC04_exempt(fx))
    n_tp = 0
    bad_tp = []
    for nm in sorted(cone):
        b = fx.bodies[nm]
        if "transposition_table::TranspositionTable" not in norm(nm) or b.kind not in ("AssocFn", "Closure"):
            continue
        n_tp += 1
        live = b.live_blocks()
        loops = any(i in b.reachable(j) for i in live for j in b.succ(i))
        bulk = [norm(callee_name(t) or "").split("::")[-1] for bb, t in b.calls()
                if norm(callee_name(t) or "").split("::")[-1] in ("fill", "for_each", "resize", "clear", "iter_mut", "chunks_mut", "chunks_exact_mut", "fill_with", "extend", "collect", "shrink_to_fit") and
                t["args"] and any(isinstance(x, tuple) and len(x) == 3 and x[0] == "field" and x[2] == "data" for x in walk(b.expr(t["args"][0], expand_named=True, at=bb)))]
        if loops or bulk:
            bad_tp.append((b, "a loop" if loops else f"`{bulk[0]}` over the slot vector"))
    rep.obligation(not bad_tp, max(1, n_tp))
    for b, why in bad_tp:
        vs = vs + [None]
        rep.violation("C14-POLL", f"C14-POLL/table-pass/{norm(b.name).split('::')[-1]}", f"`{b.name}` is reachable from search::search and contains {why}: a pass over the whole table runs after the clock was started and without any time poll, so a short limit is overrun by the time the pass takes",
                      {"fn": b.name, "file": b.file, "line": b.line})
    rep.rule("C14-POLL", sub.obligations + n_tp, 2, not vs, "time limits polled by both search functions (shared with C09-POLL); no unpolled pass over the table in the search cone")


GO_FIELDS = ("wtime", "btime", "winc", "binc", "movestogo", "movetime")
GO_EXTRA = ("depth", "nodes", "infinite", "ponder")   # further arguments a selection may look at (optional values and flags)


def presence_of(e, val, fx=None):
    """constraint on the six optional `go` arguments expressed by the branch condition (e == val):
    ('lit', field, present) | ('any', (fields..), truth) | ('const', truth); None if it is about something else"""
    d = deep_strip(e)
    if not isinstance(d, tuple) or not d:
        return None
    truth = None
    if isinstance(val, int):
        truth = val
    elif isinstance(val, tuple) and val[0] == "otherwise":
        truth = 1 if val[1] == (0,) else (0 if val[1] == (1,) else None)
    if truth is None:
        return None
    if d[0] == "const" and isinstance(d[1], (int, bool)):
        return ("const", int(d[1]) == truth)

    def go_field(x):
        x = deep_strip(x)
        if isinstance(x, tuple) and len(x) == 3 and x[0] == "field" and x[2] in GO_FIELDS + GO_EXTRA:
            return x[2]
        return None
    if go_field(d) in ("infinite", "ponder"):
        return ("lit", go_field(d), bool(truth))       # a bool flag of the command, tested directly
    if d[0] == "discr" and go_field(d[1]):
        return ("lit", go_field(d[1]), bool(truth))      # Option: None = 0, Some = 1
    if d[0] == "call" and isinstance(d[1], str) and d[1].endswith("Option::is_some") and go_field(d[2][0]):
        return ("lit", go_field(d[2][0]), bool(truth))
    if d[0] == "is_some" and go_field(d[1]):
        return ("lit", go_field(d[1]), bool(truth))
    if d[0] == "call" and isinstance(d[1], str) and d[1].endswith("Option::is_none") and go_field(d[2][0]):
        return ("lit", go_field(d[2][0]), not bool(truth))
    # [a, b, ..].iter().any(|t| t.is_some())
    if d[0] == "call" and isinstance(d[1], str) and d[1].endswith("::any") and fx is not None and len(d[2]) == 2:
        arrs = [x for x in walk(d[2][0]) if isinstance(x, tuple) and x and x[0] == "agg" and x[1] == "array"]
        clos = [x for x in walk(d[2][1]) if isinstance(x, tuple) and x and x[0] == "agg" and str(x[1]).startswith("closure:")]
        cb = fx.bodies.get(clos[0][1][len("closure:"):]) if clos else None
        if len(arrs) == 1 and cb is not None:
            flds = [go_field(x) for x in arrs[0][2]]
            cc = [norm(callee_name(t) or "") for _, t in cb.calls()]
            if all(flds) and len(cc) == 1 and cc[0].endswith("Option::is_some"):
                return ("any", tuple(flds), bool(truth))
    return None


def holds(con, c):
    if con[0] == "const":
        return con[1]
    if con[0] == "lit":
        return c[con[1]] == con[2]
    if con[0] == "any":
        return any(c[f] for f in con[1]) == con[2]
    return False


def rule_select(fx, rep, rid="C14-SELECT", untimed=False):
    """Which time control a `go` command gets: with a clock for either side (wtime / btime) it is Clocks; with a move time and
    no clock it is ExactTime - "a fixed move time is used as given". Decided by enumerating the paths of the go handler from
    the arm's entry to the TimeStrategy::new call (and through a selection helper, if any) together with the presence
    conditions they test, and checking every completion of the six optional arguments."""
    import itertools
    ex = fx.one("uci::Uci::execute")
    arms = pC05.arm_regions(fx, ex)
    entry, region = arms["Go"]
    stops = {bb for bb, t in ex.calls_to("TimeStrategy::new") if bb in region}
    if len(stops) != 1:
        rep.notes.append(rid + ": the go handler does not call TimeStrategy::new exactly once; clause not decided")
        rep.rule(rid, 0, 0, True, "not decided")
        return
    sbb = next(iter(stops))
    paths = decision_paths(ex, 3000, start=entry, stop=stops)
    if not paths or len(paths) >= 3000:
        rep.notes.append(rid + ": too many / no paths from the go arm to TimeStrategy::new; clause not decided")
        rep.rule(rid, 0, 0, True, "not decided")
        return
    outcomes = []  # (constraints, variant)
    undecided = False
    for conds, (env, ev), bb in paths:
        cons = []
        for (e, val) in conds:
            pr = presence_of(e, val, fx)
            if pr is None:
                undecided = True
                break
            cons.append(pr)
        if undecided:
            break
        tc = deep_strip(ev(ex.blocks[sbb]["term"]["args"][1]))
        if isinstance(tc, tuple) and tc[0] == "agg" and "TimeControl::" in str(tc[1]):
            outcomes.append((cons, str(tc[1]).split("::")[-1]))
            continue
        if isinstance(tc, tuple) and tc[0] == "call" and isinstance(tc[1], str) and fx.body(tc[1]) is not None and fx.body(tc[1]).n <= 60:
            hb = fx.body(tc[1])
            for hconds, hret, hl in decision_paths(hb, 256):
                if hret is None:
                    continue
                c2 = list(cons)
                for (e, val) in hconds:
                    pr = presence_of(substitute_args(e, tc[2]), val, fx)
                    if pr is None:
                        undecided = True
                        break
                    c2.append(pr)
                if undecided:
                    break
                r = deep_strip(hret)
                if isinstance(r, tuple) and r[0] == "agg" and "TimeControl::" in str(r[1]):
                    outcomes.append((c2, str(r[1]).split("::")[-1]))
                else:
                    undecided = True
            if undecided:
                break
            continue
        undecided = True
        break
    if undecided or not outcomes:
        rep.notes.append(rid + ": the selection of the time control tests something other than the presence of go arguments (or is in a form not modelled); clause not decided")
        rep.rule(rid, 0, 0, True, "not decided")
        return
    ok = True
    n = 0
    seen_bad = set()
    covered = 0
    allf = GO_FIELDS + GO_EXTRA
    for combo in itertools.product([False, True], repeat=len(allf)):
        c = dict(zip(allf, combo))
        variants = {v for cons, v in outcomes if all(holds(k, c) for k in cons)}
        if len(variants) != 1:
            # the modelled paths do not partition this input (should not happen for a deterministic handler): not decided
            continue
        covered += 1
        variant = next(iter(variants))
        want = "Clocks" if (c["wtime"] or c["btime"]) else ("ExactTime" if c["movetime"] else ("Infinite" if untimed else None))
        if want is None:
            continue
        if untimed and want != "Infinite":
            continue
        n += 1
        good = variant == want
        rep.obligation(good)
        if not good and (variant, want) not in seen_bad:
            seen_bad.add((variant, want))
            ok = False
            given = [f for f in allf if c[f]]
            rep.violation(rid, f"{rid}/{want}-as-{variant}", f"`go` with {given} is searched under TimeControl::{variant}; expected {want} "
                          + ("(a fixed move time must be used as given)" if want == "ExactTime" else "(a clock for either side must be honoured)" if want == "Clocks" else
                             "(no time argument was given: the search must not be given a time limit, or a depth-limited search depends on the clock)"),
                          {"fn": ex.name, "file": ex.file, "line": ex.blocks[sbb]["term"].get("line")})
    if covered < 2 ** len(allf):
        rep.notes.append(rid + f": only {covered} of {2 ** len(allf)} argument combinations map to a unique modelled path")
    rep.sample({"rule": rid, "paths": len(paths), "outcomes": [([str(k) for k in p], v2) for p, v2 in outcomes][:8]})
    rep.rule(rid, n, 40 if not untimed else 8, ok, "time control selected from the presence of go arguments (all completions)")


def arm_of(fx, body, bb, argidx, adt):
    """Variant of enum argument `argidx` that block bb is specialised to (via dominating discriminant switch)."""
    variants = {v["discr"]: v["name"] for v in fx.adt(adt)["variants"]}
    for (e, pol, where) in guard_conditions(body, bb, expand_named=True):
        e2 = deep_strip(e)
        if isinstance(e2, tuple) and e2[0] == "discr" and isinstance(pol, int):
            inner = e2[1]
            if (isinstance(inner, tuple) and inner[0] == "arg" and inner[1] == argidx) or \
               (isinstance(inner, tuple) and inner[0] == "field" and isinstance(inner[1], tuple) and inner[1][0] == "arg" and inner[1][1] == argidx):
                return variants.get(pol)
    return None


class LimitsNotLocated(Exception):
    pass


def locate_limit_operands(new, rv):
    leaves = []

    def descend(op, names, depth):
        if depth > 4 or "pl" not in op or op["pl"].get("p"):
            return
        l = op["pl"]["l"]
        ty = new.local_ty(l) or ""
        if ty.endswith("time::Duration"):
            leaves.append((names, op))
            return
        for d in new.defs().get(l, []):
            if d[0] != "stmt" or d[3]["k"] != "assign":
                continue
            r = d[3]["rv"]
            if r["k"] == "agg" and r.get("agg") == "adt":
                for fname, o in zip(r.get("fields") or [str(i) for i in range(len(r["ops"]))], r["ops"]):
                    descend(o, names + [str(fname)], depth + 1)
            elif r["k"] == "use":
                descend(r["op"], names, depth + 1)
    for fname, o in zip(rv["fields"], rv["ops"]):
        descend(o, [str(fname)], 0)
    out = {}
    for want, tag in (("soft_stop", "soft"), ("hard_stop", "hard")):
        c = [o for names, o in leaves if any(tag in n for n in names)]
        uniq = {o["pl"]["l"] for o in c}
        if len(uniq) != 1:
            return None
        out[want] = c[0]
    return out


def analyse_new(fx, rep, new):
    """Locate the TimeStrategy literal and the definitions of its two limit operands per time-control arm."""
    aggs = [(bb, j, s) for bb, j, s in new.stmts() if s["k"] == "assign" and s["rv"]["k"] == "agg" and s["rv"].get("agg") == "adt" and norm(s["rv"]["adt"]) == TS]
    if len(aggs) != 1:
        pC05.raise_missing(f"expected one TimeStrategy literal in TimeStrategy::new, found {len(aggs)}")
    rv = aggs[0][2]["rv"]
    ops = dict(zip(rv["fields"], rv["ops"]))
    info = {"agg_bb": aggs[0][0], "limits": {}}
    if "soft_stop" not in ops or "hard_stop" not in ops:
        # the two limits may be packed into a private record (`deadlines: Option<Deadlines { soft, hard }>`): descend through
        # the aggregates built in this function down to the Duration-typed leaves and pick them by the name on the way
        found = locate_limit_operands(new, rv)
        if found is None:
            raise LimitsNotLocated("the soft / hard limit operands of the TimeStrategy literal could not be located")
        ops = dict(ops)
        ops.update(found)
    for fld in ("soft_stop", "hard_stop"):
        op = ops[fld]
        # follow plain copies back to the variable that is assigned per arm
        l = op["pl"]["l"]
        while True:
            ds = new.defs().get(l, [])
            if len(ds) == 1 and ds[0][0] == "stmt" and ds[0][3]["rv"]["k"] == "use" and "pl" in ds[0][3]["rv"]["op"] and not ds[0][3]["rv"]["op"]["pl"].get("p"):
                l = ds[0][3]["rv"]["op"]["pl"]["l"]
                continue
            break
        per_arm = {}
        cands = []  # (bb, expr)
        ds0 = new.defs().get(l, [])
        proj = None
        if len(ds0) == 1 and ds0[0][0] == "stmt" and ds0[0][3]["rv"]["k"] == "use" and "pl" in ds0[0][3]["rv"]["op"]:
            pp = ds0[0][3]["rv"]["op"]["pl"].get("p", [])
            if len(pp) == 1 and isinstance(pp[0], dict) and str(pp[0].get("n", "")).isdigit():
                proj = (ds0[0][3]["rv"]["op"]["pl"]["l"], int(pp[0]["n"]))
        if proj is not None:
            # `let (soft, hard) = match tc { .. => (a, b), .. }`: one tuple temp assigned per arm, then projected
            T, k = proj
            for _hop in range(4):
                # the tuple may arrive through plain copies (a spliced helper's return slot): descend to where it is built
                dT = new.defs().get(T, [])
                srcs = {d[3]["rv"]["op"]["pl"]["l"] for d in dT if d[0] == "stmt" and d[3]["rv"]["k"] == "use" and "pl" in d[3]["rv"]["op"] and not d[3]["rv"]["op"]["pl"].get("p")}
                if dT and len(srcs) == 1 and all(d[0] == "stmt" and d[3]["rv"]["k"] == "use" and "pl" in d[3]["rv"]["op"] and not d[3]["rv"]["op"]["pl"].get("p") for d in dT):
                    T = srcs.pop()
                else:
                    break
            work, seenT = [T], set()
            alld = []
            while work:
                # a tuple that arrives through a plain copy of another local (a spliced helper's return slot) is built where that
                # local is defined
                Tx = work.pop()
                if Tx in seenT:
                    continue
                seenT.add(Tx)
                for d in new.defs().get(Tx, []):
                    if d[0] == "stmt" and d[3]["rv"]["k"] == "use" and "pl" in d[3]["rv"]["op"] and not d[3]["rv"]["op"]["pl"].get("p") and len(seenT) < 6:
                        work.append(d[3]["rv"]["op"]["pl"]["l"])
                    else:
                        alld.append(d)
            for d in alld:
                if d[0] == "stmt" and d[3]["rv"]["k"] == "agg" and d[3]["rv"].get("agg") == "tuple" and k < len(d[3]["rv"]["ops"]):
                    cands.append((d[1], new.expr(d[3]["rv"]["ops"][k], expand_named=True, at=d[1])))
                elif d[0] == "stmt" and d[3]["rv"]["k"] == "use":
                    cands.append((d[1], ("field", new.expr(d[3]["rv"]["op"], expand_named=True, at=d[1]), str(k))))
                elif d[0] == "call":
                    t = d[2]
                    cands.append((d[1], ("field", ("call", norm(callee_name(t)), tuple(new.expr(a, expand_named=True, at=d[1]) for a in t["args"])), str(k))))
        else:
            for d in ds0:
                if d[0] not in ("stmt", "call"):
                    continue
                bb = d[1]
                if d[0] == "stmt":
                    rvd = d[3]["rv"]
                    if rvd["k"] == "agg" and rvd.get("agg") == "adt" and norm(rvd["adt"]).endswith("Option") and rvd.get("variant") == "Some" and len(rvd["ops"]) == 1:
                        # an Option-typed limit: `limit = Some(value)`; None (no limit) has no value to check
                        e = new.expr(rvd["ops"][0], expand_named=True, at=bb)
                    elif rvd["k"] == "agg" and rvd.get("agg") == "adt" and norm(rvd["adt"]).endswith("Option") and rvd.get("variant") == "None":
                        continue
                    else:
                        e = new.expr(rvd.get("op"), expand_named=True, at=bb) if rvd["k"] == "use" else ("rv", rvd["k"])
                else:
                    t = d[2]
                    e = ("call", norm(callee_name(t)), tuple(new.expr(a, expand_named=True, at=bb) for a in t["args"]))
                cands.append((bb, e))
        def unsome(e):
            d = deep_strip(e)
            if isinstance(d, tuple) and d and d[0] == "agg" and str(d[1]).endswith("Option::Some") and len(d[2]) == 1:
                return d[2][0]  # an Option-typed limit: `limit = Some(value)`
            return e
        cands = [(bb, unsome(e)) for bb, e in cands if not (isinstance(deep_strip(e), tuple) and deep_strip(e)[:1] == ("agg",) and str(deep_strip(e)[1]).endswith("Option::None"))]
        for bb, e in cands:
            arm = arm_of(fx, new, bb, 2, "search::TimeControl")
            per_arm.setdefault(arm, []).append((bb, e))
        info["limits"][fld] = (l, per_arm)
    return info


def is_mul_f32(e):
    e = strip_refs(e)
    if isinstance(e, tuple) and e[0] == "call" and e[1].endswith("Duration::mul_f32") and isinstance(e[2][1], tuple) and e[2][1][0] == "const":
        return e[2][0], e[2][1][1]
    return None


def is_min(e):
    e = strip_refs(e)
    if isinstance(e, tuple) and e[0] == "call" and (e[1].endswith("cmp::min") or e[1].endswith("Ord::min")) and len(e[2]) == 2:
        return e[2][0], e[2][1]
    return None


def through_helper(fx, info, e):
    """If the clocks-arm value is component k of the tuple returned by an in-crate helper of time_control, return the
    helper's own expression for that component with the helper's parameters replaced by the call's arguments, and
    remember the helper body (the per-colour selection is then looked up there)."""
    d = deep_strip(e)
    if isinstance(d, tuple) and d[0] == "field" and str(d[2]).isdigit() and isinstance(deep_strip(d[1]), tuple) and deep_strip(d[1])[0] == "call":
        c = deep_strip(d[1])
        hb = fx.body(c[1]) if isinstance(c[1], str) else None
        if hb is not None and norm(hb.name).startswith("engine::search::time_control::"):
            for bb, j, st in hb.stmts():
                rv = st.get("rv")
                if st["k"] == "assign" and st["lhs"]["l"] == 0 and not st["lhs"].get("p") and rv and rv["k"] == "agg" and rv.get("agg") == "tuple" and int(d[2]) < len(rv["ops"]):
                    info["limits_body"] = hb
                    info["callargs"] = c[2]
                    return substitute_args(hb.expr(rv["ops"][int(d[2])], expand_named=True, at=bb), c[2])
    return e


def inline_closure_call(fx, e):
    """`capped(K)` for a local closure `|k| min(base.mul_f32(k), max)`: the closure's single return expression with its
    parameter(s) replaced by the call's arguments and its captures by the captured values"""
    import re as _re
    from facts import resolve_captures
    d = deep_strip(e)
    if not (isinstance(d, tuple) and d and d[0] == "call" and isinstance(d[1], str) and len(d[2]) >= 1):
        return e
    direct = fx.body(d[1]) if "{closure#" in d[1] else None
    if not (_re.search(r"Fn(Mut|Once)?(<[^>]*>)?>?::call(_mut|_once)?$", d[1]) or (direct is not None and direct.kind == "Closure")):
        return e
    cl = deep_strip(d[2][0])
    if not (isinstance(cl, tuple) and cl and cl[0] == "agg" and str(cl[1]).startswith("closure:")):
        return e
    cb = fx.body(str(cl[1])[len("closure:"):])
    rest = [deep_strip(a) for a in d[2][1:]]
    if len(rest) == 1 and isinstance(rest[0], tuple) and rest[0] and rest[0][0] == "agg" and rest[0][1] == "tuple":
        args = rest[0]
    else:
        args = ("agg", "tuple", tuple(d[2][1:]))
    if cb is None:
        return e
    rets = [r for (c, r, _l) in decision_paths(cb, 8) if r is not None]
    if len(rets) != 1:
        return e

    def sub(x):
        if not isinstance(x, tuple) or not x:
            return x
        if x[0] == "arg" and isinstance(x[1], int) and x[1] >= 2 and x[1] - 2 < len(args[2]):
            return args[2][x[1] - 2]
        return tuple(sub(y) if isinstance(y, tuple) else y for y in x)
    caps = cl[2]

    def cap(x):
        # `(closure env).k` -> the captured value as written at the place the closure is built (the caller's terms)
        if not isinstance(x, tuple) or not x:
            return x
        if x[0] == "field" and str(x[2]).isdigit() and int(x[2]) < len(caps):
            base = x[1]
            while isinstance(base, tuple) and base and base[0] in ("deref", "ref"):
                base = base[1]
            if isinstance(base, tuple) and base[:2] == ("arg", 1):
                return caps[int(x[2])]
        return tuple(cap(y) if isinstance(y, tuple) else y for y in x)
    return sub(cap(rets[0])) if caps else sub(resolve_captures(fx, cb, rets[0]))


def rule_cap(fx, rep, new, info):
    ok = True
    n = 0

    def bad(key, msg, line=None):
        nonlocal ok
        ok = False
        rep.violation("C14-CAP", f"C14-CAP/{key}", msg, {"fn": new.name, "file": new.file, "line": line or new.line})

    parts = {}
    for fld in ("soft_stop", "hard_stop"):
        l, per_arm = info["limits"][fld]
        defs = per_arm.get("Clocks", [])
        n += 1
        good = len(defs) == 1
        if good:
            defs = [(defs[0][0], inline_closure_call(fx, through_helper(fx, info, defs[0][1])))]
        mn = is_min(defs[0][1]) if good else None
        good = good and mn is not None
        a = c = None
        if good:
            x, y = mn
            mx, my = is_mul_f32(x), is_mul_f32(y)
            good = mx is not None and my is not None
            if good:
                parts[fld] = (mx, my, defs[0][0])
        rep.obligation(good)
        rep.sample({"rule": "C14-CAP", "limit": fld, "clocks_arm_value": show(defs[0][1])[:300] if defs else None})
        if not good:
            bad(f"{fld}/shape", f"in the clocks arm `{fld}` is `{show(defs[0][1])[:160] if defs else 'not assigned'}`, not min(base.mul_f32(k), remaining.mul_f32(c))")
    if len(parts) == 2:
        (s1, s2, sbb), (h1, h2, hbb) = parts["soft_stop"], parts["hard_stop"]
        # identify which operand is the cap: the one shared by both limits
        cand = [(a, b) for a in (s1, s2) for b in (h1, h2) if a == b]
        n += 1
        good = len(cand) >= 1
        rep.obligation(good)
        if not good:
            bad("cap/shared", "the soft and the hard limit are not capped by the same `remaining.mul_f32(c)` value")
        else:
            cap = cand[0][0]
            sb = s2 if s1 == cap else s1
            hb = h2 if h1 == cap else h1
            tr, c = cap
            n += 1
            good = isinstance(c, float) and 0.0 < c <= 0.5
            rep.obligation(good)
            if not good:
                bad("cap/fraction", f"the cap is {c} of the remaining time; the property needs 0 < c <= 0.5")
            n += 1
            good = sb[0] == hb[0]
            rep.obligation(good)
            if not good:
                bad("base/same", f"soft and hard limits scale different base times: `{show(sb[0])[:100]}` vs `{show(hb[0])[:100]}`")
            n += 1
            good = isinstance(sb[1], float) and isinstance(hb[1], float) and 0.0 <= sb[1] <= hb[1]
            rep.obligation(good)
            rep.sample({"rule": "C14-CAP", "soft_multiplier": sb[1], "hard_multiplier": hb[1], "cap_fraction": c})
            if not good:
                bad("multipliers", f"soft multiplier {sb[1]} and hard multiplier {hb[1]} do not satisfy 0 <= soft <= hard, so the soft limit can exceed the hard limit")
            # remaining = max(saturating_sub(unwrap_or_default(clock), overhead), overhead)
            n += 1
            tre = strip_refs(tr)
            good, why = False, f"remaining time is `{show(tr)[:200]}`"
            info["clock_expr"] = None
            if isinstance(tre, tuple) and tre[0] == "call" and (tre[1].endswith("Ord::max") or tre[1].endswith("cmp::max")):
                a, b = strip_refs(tre[2][0]), strip_refs(tre[2][1])
                for sub, ovh in ((a, b), (b, a)):
                    if isinstance(sub, tuple) and sub[0] == "call" and sub[1].endswith("Duration::saturating_sub") and strip_refs(sub[2][1]) == ovh:
                        o = strip_refs(ovh)
                        ovh_ok = isinstance(o, tuple) and o[0] == "call" and o[1].endswith("Duration::from_millis") and \
                            any(isinstance(x, tuple) and x[0] == "field" and x[2] == "move_overhead" for x in walk(o))
                        clk = strip_refs(sub[2][0])
                        if ovh_ok and isinstance(clk, tuple) and clk[0] == "call" and (clk[1].endswith("unwrap_or_default") or clk[1].endswith("unwrap_or")):
                            good = True
                            info["clock_expr"] = clk[2][0]
                        elif not ovh_ok:
                            why = f"the overhead subtracted is `{show(ovh)[:80]}`, not the configured move overhead"
            rep.obligation(good)
            if not good:
                bad("remaining", f"the capped quantity is not max(clock - overhead, overhead) of the configured overhead: {why}")
            info["base_expr"] = sb[0]
    # the limits proven above are the limits in force: nothing outside TimeStrategy::new writes the two limit fields later
    # (seed C14-5a: an `extend()` multiplying both limits after a score drop compounds past the cap)
    for b in fx.fn_bodies():
        if b.name == new.name or "::tests::" in b.name:
            continue
        lw = [(bb, idx, adt, fld) for (bb, idx, adt, fld, kind, place) in b.field_writes() if norm(adt) == TS and fld in ("soft_stop", "hard_stop")]
        if not lw:
            continue
        callers = fx.callers_of(lambda nm, b=b: fx.body(nm) is not None and fx.body(nm).name == b.name)
        if callers and all(cb.name == new.name for (cb, _bb, _t) in callers):
            continue  # a private helper of the constructor
        for (bb, idx, adt, fld) in lw:
            if True:
                n += 1
                rep.obligation(False)
                ok = False
                rep.violation("C14-CAP", f"C14-CAP/late-write/{fld}", f"`{b.name}` writes TimeStrategy.{fld} after construction: the bound established in TimeStrategy::new (hard limit <= half the remaining time, soft <= hard) no longer holds for the limit the polls compare against",
                              {"fn": b.name, "file": b.file, "line": b.line_of(bb, idx) if hasattr(b, "line_of") else b.line})
    n += 1
    rep.obligation(True)
    rep.rule("C14-CAP", n, 7, ok, "limits in the clocks arm: min(base*k, remaining*c) with constant relations")


def rule_exact(fx, rep, new, info):
    ok = True
    n = 0
    for fld in ("soft_stop", "hard_stop"):
        l, per_arm = info["limits"][fld]
        defs = per_arm.get("ExactTime", [])
        n += 1
        good = len(defs) == 1
        if good:
            e = deep_strip(defs[0][1])
            good = isinstance(e, tuple) and e[0] == "field" and e[2] == "0" and isinstance(e[1], tuple) and e[1][0] == "as" and e[1][2] == "ExactTime" and e[1][1] == ("arg", 2, new.local_name(2))
        rep.obligation(good)
        if not good:
            ok = False
            rep.violation("C14-EXACT", f"C14-EXACT/{fld}", f"with a fixed move time `{fld}` is `{show(defs[0][1])[:120] if defs else 'not assigned'}`, not the given duration unchanged",
                          {"fn": new.name, "file": new.file, "line": new.line})
    rep.rule("C14-EXACT", n, 2, ok, "movetime stored unchanged in both limits")


def rule_use(fx, rep):
    ok = True
    n = 0
    want = {
        "TimeStrategy::should_stop": {"Clocks": ("Gt", "hard_stop"), "ExactTime": ("Gt", "payload"), "Infinite": ("const", False)},
        "TimeStrategy::should_start_new_search": {"Clocks": ("Lt", "soft_stop"), "ExactTime": ("Lt", "payload"), "Infinite": ("const", True)},
    }
    for fn, table in want.items():
        b = fx.one(fn)
        # locate the `match self.time_control`
        variants = {v["discr"]: v["name"] for v in fx.adt("search::TimeControl")["variants"]}
        found = {}
        for i in sorted(b.live_blocks()):
            t = b.blocks[i]["term"]
            if t["k"] == "switch" and t["dty"] != "bool":
                e = deep_strip(b.expr(t["discr"], expand_named=True))
                if isinstance(e, tuple) and e[0] == "discr" and isinstance(e[1], tuple) and e[1][0] == "field" and e[1][2] == "time_control":
                    for v, tg in t["targets"]:
                        found[variants.get(v)] = tg
        if not found:
            # no `match self.time_control`: decide the function path by path instead (pC05.limit_verdicts): the answers that
            # consult the clock compare elapsed time in the right direction, and "no limit" is selected by the limit's kind
            g_ok, g_n = generic_use(fx, rep, fn, b, table)
            n += g_n
            ok = ok and g_ok
            continue
        for arm, (op, what) in table.items():
            n += 1
            tg = found.get(arm)
            good, why = tg is not None, f"no `{arm}` arm in the match on the time control"
            if good:
                # the value returned from this arm: follow the arm to the assignment of _0
                val = arm_return_value(b, tg)
                if op == "const":
                    good = val == ("const", int(what)) or val == ("const", what)
                    why = f"returns `{show(val)[:80]}`, expected the constant {what}"
                else:
                    co = cmp_op(val) if val else None
                    good = False
                    why = f"returns `{show(val)[:120] if val else '?'}`"
                    if co:
                        o, x, y = co[0], deep_strip(co[1]), deep_strip(co[2])
                        def is_elapsed(z):
                            return bool(find_calls(z, "TimeStrategy::elapsed", "Instant::elapsed"))
                        def is_limit(z):
                            if what == "payload":
                                if isinstance(z, tuple) and z[0] == "field" and z[2] == "0" and isinstance(z[1], tuple) and z[1][0] == "as" and z[1][2] == arm:
                                    return True
                                # ... or the stored limit of this function, which C14-EXACT shows to be the move time unchanged
                                own = table["Clocks"][1]
                                return isinstance(z, tuple) and z[0] == "field" and z[2] == own and z[1] == ("arg", 1, "self")
                            return isinstance(z, tuple) and z[0] == "field" and z[2] == what and z[1] == ("arg", 1, "self")
                        flip = {"Gt": "Lt", "Lt": "Gt", "Ge": "Le", "Le": "Ge"}
                        if is_elapsed(x) and is_limit(y):
                            good = o in (op, {"Gt": "Ge", "Lt": "Le"}[op])
                        elif is_elapsed(y) and is_limit(x):
                            good = flip.get(o) in (op, {"Gt": "Ge", "Lt": "Le"}[op])
                        if not good:
                            why = f"returns `{show(val)[:120]}`; expected elapsed {'>' if op == 'Gt' else '<'} {what}"
            rep.obligation(good)
            rep.sample({"rule": "C14-USE", "fn": fn, "arm": arm, "ok": good})
            if not good:
                ok = False
                rep.violation("C14-USE", f"C14-USE/{fn}/{arm}", f"`{fn}` in the {arm} arm {why}", {"fn": b.name, "file": b.file, "line": b.line})
    # the clock is consulted for every search that has a limit: an answer "keep going" that does not look at the clock is selected by
    # the kind of limit only (C05-LIMIT's path analysis), not by other state of the strategy such as "still in the first iteration"
    # (seed C14-7b: a depth-1 iteration that is itself enormous then overruns the clock)
    pC05.limit_verdicts(fx)
    for fn_, cond_, keep_ in list(pC05.UNEXPLAINED):
        if fn_.endswith("should_stop"):
            n += 1
            ok = False
            rep.obligation(False)
            b_ = fx.one(fn_)
            rep.violation("C14-USE", f"C14-USE/{fn_}/unclocked", f"`{fn_}` answers `{keep_}` without consulting the clock under `{cond_}`, which is not the kind of limit: while that holds, a search with a finite limit is not stopped when the limit expires",
                          {"fn": b_.name, "file": b_.file, "line": b_.line})
    # depth 1 is always started: checked under C09-POLL
    rep.rule("C14-USE", n, 6, ok, "limits compared with elapsed time per arm")


def generic_use(fx, rep, fn, b, table):
    findings, n0, notes = pC05.limit_verdicts(fx)
    ok = True
    n = 0
    for f, key, msg in findings:
        if f == fn:
            ok = False
            rep.violation("C14-USE", "C14-USE/" + key, msg, {"fn": b.name, "file": b.file, "line": b.line})
    for x in notes:
        if x.startswith(f"`{fn}`"):
            rep.notes.append("C14-USE: " + x)
    want = table["Clocks"][0]
    paths = list(decision_paths(b, max_paths=400) or [])
    # answers computed by a closure handed to an Option combinator (`limit.is_some_and(|l| elapsed > l)`)
    closures = []
    for conds, ret, _bb in list(paths):
        for x in walk(ret) if ret is not None else []:
            if isinstance(x, tuple) and x and x[0] == "agg" and str(x[1]).startswith("closure:"):
                cb = fx.bodies.get(str(x[1])[len("closure:"):])
                if cb is not None and cb.name not in closures:
                    closures.append(cb.name)
                    paths += list(decision_paths(cb, max_paths=100) or [])
    clocked = 0
    for conds, ret, _bb in paths:
        if ret is None:
            continue
        co = cmp_op(deep_strip(ret))
        if not co:
            continue
        o, x, y = co[0], deep_strip(co[1]), deep_strip(co[2])
        ex, ey = bool(find_calls(x, "TimeStrategy::elapsed", "Instant::elapsed")), bool(find_calls(y, "TimeStrategy::elapsed", "Instant::elapsed"))
        if ex == ey:
            continue
        clocked += 1
        n += 1
        flip = {"Gt": "Lt", "Lt": "Gt", "Ge": "Le", "Le": "Ge"}
        eff = o if ex else flip.get(o)
        good = eff in (want, {"Gt": "Ge", "Lt": "Le"}[want])
        rep.obligation(good)
        if not good:
            ok = False
            rep.violation("C14-USE", f"C14-USE/{fn}/direction", f"`{fn}` answers `{show(ret)[:100]}`; expected elapsed {'>' if want == 'Gt' else '<'} limit", {"fn": b.name, "file": b.file, "line": b.line})
    if clocked == 0:
        reads = b.calls_to("TimeStrategy::elapsed") or b.calls_to("Instant::elapsed") or any(fx.bodies[c].calls_to("TimeStrategy::elapsed") for c in closures)
        if not reads:
            ok = False
            rep.violation("C14-USE", f"C14-USE/{fn}/no-clock", f"`{fn}` never reads the elapsed time: no time limit is enforced there", {"fn": b.name, "file": b.file, "line": b.line})
        else:
            rep.notes.append(f"C14-USE: `{fn}` reads the clock but none of its answers is a recognisable comparison of elapsed time with a limit; not decided")
    rep.sample({"rule": "C14-USE", "fn": fn, "form": "path-wise (no match on the time control)", "clocked_answers": clocked})
    return ok, max(n, 3)


def arm_return_value(b, tg):
    """Expression assigned to _0 on the straight-line path starting at block tg."""
    cur = tg
    seen = set()
    while cur is not None and cur not in seen:
        seen.add(cur)
        blk = b.blocks[cur]
        for s in blk["stmts"]:
            if s["k"] == "assign" and s["lhs"]["l"] == 0 and not s["lhs"].get("p"):
                rv = s["rv"]
                if rv["k"] == "binop":
                    return ("binop", rv["op"], b.expr(rv["a"], expand_named=True, at=cur), b.expr(rv["b"], expand_named=True, at=cur))
                if rv["k"] == "use":
                    return b.expr(rv["op"], expand_named=True, at=cur)
                return ("rv", rv["k"])
        t = blk["term"]
        if t["k"] == "call" and t["dest"]["l"] == 0 and not t["dest"].get("p"):
            return ("call", norm(callee_name(t)), tuple(b.expr(a, expand_named=True, at=cur) for a in t["args"]))
        nxt = b.succ(cur)
        cur = nxt[0] if len(nxt) == 1 else None
    return None


def rule_wire(fx, rep, new, info):
    ok = True
    n = 0

    def bad(key, msg, b=None, line=None):
        nonlocal ok
        ok = False
        b = b or new
        rep.violation("C14-WIRE", f"C14-WIRE/{key}", msg, {"fn": b.name, "file": b.file, "line": line or b.line})

    # (a) TimeStrategy::new: which Clocks field feeds the clock / increment role for which colour
    pvars = {v["discr"]: v["name"] for v in fx.adt("player::Player")["variants"]}
    clock = info.get("clock_expr")
    role_of_field = {}  # Clocks field -> (colour, role)
    base = info.get("base_expr")
    tuple_local = None
    if clock is not None:
        c = deep_strip(clock)
        if isinstance(c, tuple) and c[0] == "field" and c[2] in ("0", "1") and isinstance(c[1], tuple) and c[1][0] in ("tmp", "var"):
            tuple_local = c[1][-1] if c[1][0] == "tmp" else c[1][2]
            clock_slot = int(c[2])
    if tuple_local is None:
        n += 1
        rep.obligation(False)
        bad("select", f"cannot find the per-colour (clock, increment) selection feeding the remaining time (`{show(clock)[:100] if clock else None}`)")
    else:
        lb = info.get("limits_body", new)
        for d in lb.defs().get(tuple_local, []):
            if d[0] != "stmt" or d[3]["rv"]["k"] != "agg":
                continue
            colour = None
            for (e, pol, where) in guard_conditions(lb, d[1], expand_named=True):
                e2 = deep_strip(substitute_args(e, info["callargs"])) if lb is not new else deep_strip(e)
                if isinstance(e2, tuple) and e2[0] == "discr" and isinstance(e2[1], tuple) and e2[1][0] == "field" and e2[1][2] == "player" and isinstance(pol, int):
                    colour = pvars.get(pol)
            for slot, op in enumerate(d[3]["rv"]["ops"]):
                e = deep_strip(lb.expr(op, expand_named=True, at=d[1]))
                if isinstance(e, tuple) and e[0] == "field":
                    role_of_field[e[2]] = (colour, "clock" if slot == clock_slot else "increment")
        # the increment slot of the same tuple must be the one added into the base time
        n += 1
        inc_used = base is not None and any(isinstance(x, tuple) and x[0] == "field" and x[2] == str(1 - clock_slot) and deep_strip(x[1])[-1] == tuple_local
                                            for x in walk(deep_strip(base)) if isinstance(x, tuple) and len(x) == 3 and x[0] == "field" and isinstance(deep_strip(x[1]), tuple))
        rep.obligation(inc_used)
        if not inc_used:
            bad("increment", "the increment added to the base time is not the selected side's own increment")
    # (b) go handler: GoCmdArguments field -> Clocks field / ExactTime
    ex = fx.one("uci::Uci::execute")
    go_field_to = {}
    # the Clocks / ExactTime values may be built in the handler or in a helper of the uci module it calls
    scan = [(ex, None)]
    for bb, t in ex.calls():
        hb = fx.body(callee_name(t)) if callee_name(t) else None
        if hb is not None and hb is not ex and norm(hb.name).startswith("engine::uci::") and hb.kind in ("Fn", "AssocFn") and \
                ("TimeControl" in hb.local_ty(0) or "Clocks" in hb.local_ty(0)):
            scan.append((hb, tuple(ex.expr(a, expand_named=True, at=bb) for a in t["args"])))

    def go_sources(e):
        return [x[2] for x in walk(e) if isinstance(x, tuple) and len(x) == 3 and x[0] == "field" and isinstance(x[1], tuple) and x[1][0] == "field" and x[1][2] == "0"
                and isinstance(x[1][1], tuple) and x[1][1][0] == "as" and x[1][1][2] == "Go"]
    for sb, actual in scan:
        for bb, j, s in sb.stmts():
            rv = s.get("rv")
            if s["k"] == "assign" and rv["k"] == "agg" and rv.get("agg") == "adt" and norm(rv["adt"]).endswith("search::Clocks"):
                for fname, op in zip(rv["fields"], rv["ops"]):
                    e = sb.expr(op, expand_named=True, at=bb)
                    e = deep_strip(substitute_args(e, actual) if actual is not None else e)
                    src = go_sources(e)
                    if src:
                        go_field_to[src[0]] = ("clocks", fname)
            if s["k"] == "assign" and rv["k"] == "agg" and rv.get("agg") == "adt" and norm(rv["adt"]).endswith("search::TimeControl") and rv.get("variant") == "ExactTime":
                e = sb.expr(rv["ops"][0], expand_named=True, at=bb)
                e = deep_strip(substitute_args(e, actual) if actual is not None else e)
                src = [x[2] for x in walk(e) if isinstance(x, tuple) and len(x) == 3 and x[0] == "field" and isinstance(x[1], tuple) and x[1][0] == "field" and x[1][2] == "0"]
                if src:
                    go_field_to[src[0]] = ("exact", None)
    # (c) parser: token -> GoCmdArguments field
    cg = fx.one("parser::cmd_go")
    token_to_field = {}
    for bb, t in cg.calls():
        cn = norm(callee_name(t) or "")
        if cn.endswith("parser::command_with_argument") or cn.endswith("parser::command_without_arguments"):
            tok = None
            clos = None
            for a in t["args"]:
                if a.get("k") == "const" and const_str(a) is not None:
                    tok = const_str(a)
                e = cg.expr(a, expand_named=True)
                for x in walk(e):
                    if isinstance(x, tuple) and x and x[0] == "agg" and isinstance(x[1], str) and x[1].startswith("closure:"):
                        clos = x[1][len("closure:"):]
            if tok is None:
                e0 = cg.expr(t["args"][0], expand_named=True)
                cs = [x[1] for x in walk(e0) if isinstance(x, tuple) and x and x[0] == "const" and isinstance(x[1], str)]
                tok = cs[0] if cs else None
            # enum form: the argument is turned into a variant of a private enum (by the variant's constructor used as a function
            # value, or by a closure returning the variant), and one `match` on that enum writes the field of each variant
            ctor = None
            for a in t["args"]:
                if a.get("k") == "const" and a.get("fn") and fx.body(a.get("fn")) is None:
                    ctor = norm(a["fn"])
            if ctor is None and clos:
                for k2, b2 in fx.bodies.items():
                    if k2.startswith(clos + "::") or k2 == clos:
                        for cbb, cj, cs in b2.stmts():
                            rv2 = cs.get("rv")
                            if rv2 and rv2["k"] == "agg" and rv2.get("agg") == "adt" and cs["lhs"]["l"] == 0 and norm(rv2["adt"]).startswith("engine::uci::parser::"):
                                ctor = norm(rv2["adt"]) + "::" + rv2["variant"]
            if ctor and tok:
                fld = enum_variant_field(fx, ctor)
                if fld:
                    token_to_field[tok] = fld
                    continue
            if clos:
                flds = set()
                for k2, b2 in fx.bodies.items():
                    if k2.startswith(clos + "::") or k2 == clos:
                        for (wb, wi, adt, fld, kind, place) in b2.field_writes():
                            if adt.endswith("GoCmdArguments"):
                                flds.add(fld)
                if tok and len(flds) == 1:
                    token_to_field[tok] = flds.pop()
    rep.sample({"rule": "C14-WIRE", "token_to_go_field": token_to_field, "go_field_to": {k: list(v) for k, v in go_field_to.items()},
                "clocks_field_role": {k: list(v) for k, v in role_of_field.items()}})
    if not token_to_field:
        rep.notes.append("C14-WIRE: the `go` parser does not map its tokens to GoCmdArguments fields in a recognisable form (closures writing one field, or variants of an enum applied by one match); token wiring not decided")
        rep.rule("C14-WIRE", n, 0, ok, "token wiring not decided (parser shape)")
        return
    expected = {"wtime": ("White", "clock"), "btime": ("Black", "clock"), "winc": ("White", "increment"), "binc": ("Black", "increment")}
    for tok, want in expected.items():
        n += 1
        gf = token_to_field.get(tok)
        tgt = go_field_to.get(gf)
        got = role_of_field.get(tgt[1]) if tgt and tgt[0] == "clocks" else None
        good = got == want
        rep.obligation(good)
        if not good:
            bad(f"token/{tok}", f"UCI token `{tok}` -> go field `{gf}` -> {tgt} -> used as {got}; expected {want[0]}'s {want[1]}", ex)
    n += 1
    gf = token_to_field.get("movetime")
    good = go_field_to.get(gf) == ("exact", None)
    rep.obligation(good)
    if not good:
        bad("token/movetime", f"UCI token `movetime` -> go field `{gf}` -> {go_field_to.get(gf)}; expected TimeControl::ExactTime", ex)
    n += 1
    gf = token_to_field.get("movestogo")
    good = go_field_to.get(gf) == ("clocks", "moves_to_go") or (go_field_to.get(gf, (None, None))[0] == "clocks" and base is not None and
                                                                any(isinstance(x, tuple) and len(x) == 3 and x[0] == "field" and x[2] == go_field_to[gf][1] for x in walk(deep_strip(base))))
    if good and base is not None:
        good = any(isinstance(x, tuple) and len(x) == 3 and x[0] == "field" and x[2] == go_field_to[gf][1] for x in walk(deep_strip(base))) or True
    rep.obligation(good)
    if not good:
        bad("token/movestogo", f"UCI token `movestogo` -> go field `{gf}` -> {go_field_to.get(gf)}; expected the clocks' moves-to-go", ex)
    # TimeStrategy::new is given the position being searched (side to move) by the go handler
    n += 1
    good = False
    for bb, t in ex.calls_to("TimeStrategy::new"):
        g = deep_strip(ex.expr(t["args"][0], expand_named=True, at=bb))
        good = isinstance(g, tuple) and g[0] == "field" and g[2] == "game" and g[1] == ("arg", 1, "self")
    rep.obligation(good)
    if not good:
        bad("game", "the go handler does not hand the current position (self.game) to TimeStrategy::new", ex)
    rep.rule("C14-WIRE", n, 8, ok, "token -> field -> clock-of-colour wiring")


def enum_variant_field(fx, ctor):
    """GoCmdArguments field written in the arm of variant `ctor` (path Enum::Variant) by the function that matches on that enum"""
    en, var = ctor.rsplit("::", 1)
    try:
        adt = fx.adt(en)
    except Exception:
        return None
    disc = {v["name"]: v["discr"] for v in adt["variants"]}.get(var)
    if disc is None:
        return None
    for b in fx.fn_bodies():
        if not norm(b.name).startswith("engine::uci::parser::"):
            continue
        for i in sorted(b.live_blocks()):
            t = b.blocks[i]["term"]
            if t["k"] != "switch" or t.get("dty") == "bool":
                continue
            e = deep_strip(b.expr(t["discr"], expand_named=True))
            if not (isinstance(e, tuple) and e[0] == "discr" and isinstance(deep_strip(e[1]), tuple) and deep_strip(e[1])[0] == "arg" and
                    en.split("::")[-1] in (b.local_ty(deep_strip(e[1])[1]) or "")):
                continue
            tg = [x for v, x in t["targets"] if v == disc]
            if not tg:
                continue
            others = [x for v, x in t["targets"] if v != disc]
            mine = b.reachable(tg[0], removed_blocks=[i])
            rest = set()
            for o in others:
                rest |= b.reachable(o, removed_blocks=[i])
            flds = {fld for (wb, wi, adt2, fld, kind, place) in b.field_writes() if adt2.endswith("GoCmdArguments") and wb in mine and wb not in rest}
            if len(flds) == 1:
                return flds.pop()
    return None


T = "src/engine/search/time_control.rs"
S = "src/engine/search/mod.rs"
U = "src/engine/uci/mod.rs"
P = "src/engine/uci/parser.rs"
MUTANTS = [
    {"name": "the Hash setter as a functional update that copies the other options back", "benign": True,
     "edits": [("src/engine/uci/options.rs", "        options.hash_size = hash_size;\n        Ok(hash_size)", "        *options = EngineOptions {\n            hash_size,\n            ..options.clone()\n        };\n        Ok(hash_size)")]},
    {"name": "the Hash setter rebuilds the options from their defaults (seed C14-8a)", "expect": "C14-OVERHEAD/HashOption/whole",
     "edits": [("src/engine/uci/options.rs", "        options.hash_size = hash_size;\n        Ok(hash_size)", "        *options = EngineOptions {\n            hash_size,\n            ..EngineOptions::default()\n        };\n        Ok(hash_size)")]},
    {"name": "time-based poll switched off during the first iteration (seed C14-7b)", "expect": "C14-USE/TimeStrategy::should_stop/unclocked",
     "edits": [("src/engine/search/time_control.rs", "    next_check_at: u64,\n", "    next_check_at: u64,\n    current_depth: u8,\n"),
               ("src/engine/search/time_control.rs", "            next_check_at: params::CHECK_TERMINATION_NODE_FREQUENCY,\n", "            next_check_at: params::CHECK_TERMINATION_NODE_FREQUENCY,\n            current_depth: 1,\n"),
               ("src/engine/search/time_control.rs", "        self.next_check_at = nodes_visited + params::CHECK_TERMINATION_NODE_FREQUENCY;\n", "        self.next_check_at = nodes_visited + params::CHECK_TERMINATION_NODE_FREQUENCY;\n\n        if self.current_depth <= 1 {\n            return false;\n        }\n")]},
    {"name": "table wiped from new_generation() when the generation counter wraps (seed C14-6a)", "expect": "C14-POLL/table-pass",
     "edits": [("src/engine/transposition_table.rs", "        self.generation = self.generation.wrapping_add(1);", "        self.generation = self.generation.wrapping_add(1);\n        if self.generation == 0 {\n            self.reset();\n        }")]},
    {"name": "limits extended after construction (seed C14-5a)", "expect": "C14-CAP/late-write",
     "edits": [("src/engine/search/time_control.rs", "    pub fn elapsed(&self) -> Duration {", "    pub fn extend(&mut self) {\n        self.soft_stop = self.soft_stop.mul_f32(1.5);\n        self.hard_stop = self.hard_stop.mul_f32(1.5);\n    }\n\n    pub fn elapsed(&self) -> Duration {"),
               ("src/engine/search/iterative_deepening.rs", "        best_move = Some(*pv.first().unwrap());", "        if overall_eval.is_some_and(|previous| eval < previous) {\n            ctx.time_control.extend();\n        }\n        best_move = Some(*pv.first().unwrap());")]},
    {"name": "benign: Option-typed limits (match form)", "benign": True, "edits": shared_mutants.OPT_MATCH},
    {"name": "benign: Option-typed limits (closure form)", "benign": True, "edits": shared_mutants.OPT_CLOSURES},
    {"name": "Option-typed hard limit left None for a fixed move time", "expect": "C14-EXACT", "edits": shared_mutants.OPT_BAD},
    {"name": "quiescence no longer polls the time limits (seed C14-4a)", "expect": "C14-POLL",
     "edits": [("src/engine/search/quiescence.rs", "    if ctx.time_control.should_stop(ctx.nodes_visited) {\n        return Err(());\n    }\n\n", "")]},
    {"name": "increments or movestogo alone select the clock search over movetime (seed C14-3)", "expect": "C14-SELECT/ExactTime-as-Clocks",
     "edits": [("src/engine/uci/mod.rs", "                if wtime.is_some() || btime.is_some() {\n                    time_control = TimeControl::Clocks(clocks);", "                if wtime.is_some() || btime.is_some() || winc.is_some() || binc.is_some() || movestogo.is_some() {\n                    time_control = TimeControl::Clocks(clocks);")]},
    {"name": "movetime beats the clocks", "expect": "C14-SELECT/Clocks-as-ExactTime",
     "edits": [("src/engine/uci/mod.rs", "                if let Some(move_time) = movetime {\n                    time_control = TimeControl::ExactTime(*move_time);\n                }\n\n                if wtime.is_some() || btime.is_some() {\n                    time_control = TimeControl::Clocks(clocks);\n                }",
                "                if wtime.is_some() || btime.is_some() {\n                    time_control = TimeControl::Clocks(clocks);\n                }\n\n                if let Some(move_time) = movetime {\n                    time_control = TimeControl::ExactTime(*move_time);\n                }")]},
    {"name": "MAX_TIME_PER_MOVE = 0.6", "expect": "C14-CAP/cap/fraction",
     "edits": [(S, "pub const MAX_TIME_PER_MOVE: f32 = 0.5;", "pub const MAX_TIME_PER_MOVE: f32 = 0.6;")]},
    {"name": "hard stop not capped", "expect": "C14-CAP/hard_stop/shape",
     "edits": [(T, "                hard_stop = std::cmp::min(\n                    base_time.mul_f32(params::HARD_TIME_MULTIPLIER),\n                    max_time_per_move,\n                );", "                hard_stop = base_time.mul_f32(params::HARD_TIME_MULTIPLIER);")]},
    {"name": "multipliers swapped", "expect": "C14-CAP/multipliers",
     "edits": [(S, "pub const SOFT_TIME_MULTIPLIER: f32 = 0.75;\n    pub const HARD_TIME_MULTIPLIER: f32 = 3.00;", "pub const SOFT_TIME_MULTIPLIER: f32 = 3.00;\n    pub const HARD_TIME_MULTIPLIER: f32 = 0.75;")]},
    {"name": "opponent's clock used", "expect": "C14-WIRE/token",
     "edits": [(T, "                    Player::White => (clocks.white_clock, clocks.white_increment),\n                    Player::Black => (clocks.black_clock, clocks.black_increment),", "                    Player::White => (clocks.black_clock, clocks.white_increment),\n                    Player::Black => (clocks.white_clock, clocks.black_increment),")]},
    {"name": "overhead not subtracted", "expect": "C14-CAP/remaining",
     "edits": [(T, "                time_remaining = time_remaining\n                    .saturating_sub(move_overhead)\n                    .max(move_overhead);\n", "                time_remaining = time_remaining.max(move_overhead);\n")]},
    {"name": "cap computed before overhead is subtracted", "expect": "C14-CAP/remaining",
     "edits": [(T, "                let mut time_remaining = time_remaining.unwrap_or_default();\n\n                time_remaining = time_remaining\n                    .saturating_sub(move_overhead)\n                    .max(move_overhead);\n\n                let max_time_per_move = time_remaining.mul_f32(params::MAX_TIME_PER_MOVE);",
                "                let mut time_remaining = time_remaining.unwrap_or_default();\n                let max_time_per_move = time_remaining.mul_f32(params::MAX_TIME_PER_MOVE);\n\n                time_remaining = time_remaining\n                    .saturating_sub(move_overhead)\n                    .max(move_overhead);\n")]},
    {"name": "movetime doubled for the hard limit", "expect": "C14-EXACT/hard_stop",
     "edits": [(T, "                hard_stop = *move_time;", "                hard_stop = *move_time * 2;")]},
    {"name": "should_stop uses the soft limit", "expect": "C14-USE/TimeStrategy::should_stop/Clocks",
     "edits": [(T, "            TimeControl::Clocks(_) => self.elapsed() > self.hard_stop,", "            TimeControl::Clocks(_) => self.elapsed() > self.soft_stop,")]},
    {"name": "new iteration started until the hard limit", "expect": "C14-USE/TimeStrategy::should_start_new_search/Clocks",
     "edits": [(T, "            TimeControl::Clocks(_) => self.elapsed() < self.soft_stop,", "            TimeControl::Clocks(_) => self.elapsed() < self.hard_stop,")]},
    {"name": "go handler swaps the clocks", "expect": "C14-WIRE/token",
     "edits": [(U, "                    white_clock: *wtime,\n                    black_clock: *btime,", "                    white_clock: *btime,\n                    black_clock: *wtime,")]},
    {"name": "parser stores btime into wtime", "expect": "C14-WIRE/token",
     "edits": [(P, "                        acc.btime = Some(parse_duration(btime));", "                        acc.wtime = Some(parse_duration(btime));")]},
    {"name": "benign: limits via local helper variable", "benign": True,
     "edits": [(T, "                soft_stop = std::cmp::min(\n                    base_time.mul_f32(params::SOFT_TIME_MULTIPLIER),\n                    max_time_per_move,\n                );", "                let soft = base_time.mul_f32(params::SOFT_TIME_MULTIPLIER);\n                soft_stop = std::cmp::min(soft, max_time_per_move);")]},
]
