"""C17 — the position command reproduces the game exactly: text and table clauses C17-LETTERS, C17-CASTLE,
C17-MATCH (DESIGN.md §3)."""
from facts import (norm, show, walk, strip_refs, deep_strip, callee_name, find_calls, guard_conditions, cmp_op,
                   decision_paths, inline_expr, enum_name, const_str)
import pC05
import pC06

EXPLANATION = (
    "Decides text and table clauses of C17, not that the resulting position is the rules' position for every game "
    "(= C01 and C02 and C06): (LETTERS) promotion, file and rank letters of the move reader and of the move printer "
    "are inverse bijections, promotion letters lower-case over exactly n, b, r, q; (CASTLE) the constant tables that "
    "describe castling agree - generator targets = make/undo's king destinations, transit squares = rook end squares, "
    "king start e1/e8, targets two files away, rooks from the corner to the transit square - so castling is read and "
    "printed as the king's move and the rook is relocated consistently; (MATCH) expect_matching returns a generated "
    "legal move only under equality of source, destination and promotion with its parameters; the position command "
    "feeds it the parsed triple unchanged, applies every move to a fresh game (start position or the given FEN) and "
    "installs that game only after all moves were applied."
)


def run(fx, rep, tier):
    rule_letters(fx, rep)
    rule_castle(fx, rep)
    rule_match(fx, rep)
    rule_forward(fx, rep)
    import pC11
    pC11.rule_history(fx, rep, rid="C17-HISTORY")
    rule_movegen(fx, rep)
    rule_repscan(fx, rep)
    rule_key(fx, rep)
    rule_filter(fx, rep)
    rule_fen(fx, rep)


def rule_fen(fx, rep):
    """C17-FEN. `position fen <FEN> moves ..` starts from the position the FEN names and is shown by the FEN dump: the reader
    installs what it parsed and the writer prints each scalar field from its own Game field. These are the C06-FIELDS clauses,
    re-reported as a premise of this property (seed C17-13a: the clock read from a FEN clamped to 100)."""
    import core
    sub = type(rep)(rep.prop, rep.tier)
    q = core.QUIET
    core.QUIET = True
    try:
        pC06.rule_fields(fx, sub)
    finally:
        core.QUIET = q
    vs = [v for v in sub.violations if v["key"].startswith("C06-FIELDS/")]
    for v in vs:
        rep.violation("C17-FEN", v["key"].replace("C06-FIELDS", "C17-FEN"), v["msg"] + " (the position after `position fen ..` is then not the one the FEN names, as its dump shows)", v["site"])
    rep.obligations += sub.obligations
    rep.discharged += sub.discharged
    rep.rule("C17-FEN", sub.obligations, 3, not vs, "the reader installs what it parsed; scalar fields printed from their own Game field (shared with C06-FIELDS)")


def rule_filter(fx, rep):
    """C17-FILTER. The move-text parser reads every long-algebraic move a legal game can contain. A rejecting adaptor
    (nom `verify`, `map_opt`, `map_res`) wrapped around the whole (source, destination, promotion) triple is a semantic filter
    inside the parser; its predicate is evaluated (loop-free evaluation through in-crate helpers, pC16.bits_eval) on every
    triple some legal game contains: queen-line and knight-jump (source, destination) pairs without promotion, and the
    pawn steps onto the last rank (straight and both diagonals, both colours) with each of the four promotion pieces. A triple
    the predicate refuses makes the parser stop in front of that move, the rest of the line is left over and the whole
    position command is dropped. A predicate outside the evaluated fragment is not decided (note, no alarm)."""
    import pC16
    um = fx.find("parser::uci_move")
    if not um:
        rep.notes.append("C17-FILTER: no `uci_move` parser function; not decided")
        rep.rule("C17-FILTER", 0, 0, True, "not decided")
        return
    um = um[0]
    bodies = [um] + [fx.body(c) for c in sorted(fx.callgraph().get(um.name, ())) if "uci::parser::" in c and fx.body(c) is not None and fx.body(c).kind in ("Fn", "AssocFn")]
    filters = []
    for b in bodies:
        seen = set()
        for conds, ret, last in decision_paths(b, 16):
            for e in ([ret] if ret is not None else []) + [c for c, _ in conds]:
                for node in walk(e):
                    if isinstance(node, tuple) and node and node[0] == "call" and isinstance(node[1], str) and node[1].startswith("nom::combinator::") \
                            and node[1].split("::")[-1] in ("verify", "map_opt", "map_res") and len(node[2]) == 2:
                        cl = node[2][1]
                        if isinstance(cl, tuple) and cl[0] == "agg" and str(cl[1]).startswith("closure:") and (node[1], cl[1]) not in seen:
                            seen.add((node[1], cl[1]))
                            filters.append((b, node[1].split("::")[-1], fx.body(str(cl[1])[len("closure:"):])))
    ppk = fx.adt("piece::PromotionPieceKind")
    kinds = [v["discr"] for v in ppk["variants"]]
    n, ok = 0, True
    for (b, comb, cb) in filters:
        if cb is None or cb.arg_count != 2:
            continue
        pty = cb.locals[2]["ty"]
        if not (pty.count("square::Square") == 2 and "PromotionPieceKind" in pty and pty.lstrip("&").startswith("(")):
            continue  # not a filter over the whole move triple
        if comb != "verify":
            rep.notes.append(f"C17-FILTER: `{comb}` over the whole move triple in `{b.name}`: accepted set not evaluated; not decided")
            continue
        sq = lambda f, r: pC16.bits_eval(fx, ("call", fx.one("Square::from_idxs").name, (("const", f), ("const", r))), {})
        if sq(0, 0) is None or fx.find("Square::from_idxs") is None:
            rep.notes.append("C17-FILTER: `Square::from_idxs` is not a closed formula; not decided")
            continue
        triples = []
        for f1 in range(8):
            for r1 in range(8):
                for f2 in range(8):
                    for r2 in range(8):
                        df, dr = abs(f1 - f2), abs(r1 - r2)
                        if (df, dr) == (0, 0):
                            continue
                        if df == 0 or dr == 0 or df == dr or (df, dr) in ((1, 2), (2, 1)):
                            triples.append(((f1, r1), (f2, r2), None))
                        if df <= 1 and (r1, r2) in ((6, 7), (1, 0)):
                            triples.extend(((f1, r1), (f2, r2), kd) for kd in kinds)
        refused, undecided = None, False
        for (a, d, kd) in triples:
            val = (sq(*a), sq(*d), pC16.Opt(kd is not None, kd))
            v = pC16.eval_body(fx, cb, {2: val})
            if v is None:
                undecided = True
                break
            n += 1
            if v == 0:
                refused = (a, d, kd)
                break
        if undecided:
            rep.notes.append(f"C17-FILTER: the predicate `{cb.name}` is outside the evaluated fragment; not decided")
            continue
        good = refused is None
        rep.obligation(good)
        if not good:
            ok = False
            name = lambda q: "abcdefgh"[q[0]] + str(q[1] + 1)
            letter = "" if refused[2] is None else {v["discr"]: v["name"] for v in ppk["variants"]}[refused[2]].lower()
            rep.violation("C17-FILTER", f"C17-FILTER/{norm(b.name).split('::')[-1]}", f"`{b.name}` wraps the (source, destination, promotion) triple in `{comb}` with the predicate `{cb.name}`, which refuses "
                          f"{name(refused[0])}{name(refused[1])}{(' promoting to ' + letter) if letter else ''} - a move legal games contain: the parser stops in front of that move text and the whole position command is dropped",
                          {"fn": b.name, "file": b.file, "line": b.line})
    rep.sample({"rule": "C17-FILTER", "rejecting_adaptors_over_the_move_triple": [(b.name, comb, cb.name if cb else None) for (b, comb, cb) in filters], "triples_evaluated": n})
    rep.rule("C17-FILTER", n, 0, ok, "no predicate inside the move-text parser refuses a move that legal games contain")


def rule_key(fx, rep):
    """The history the position command builds identifies earlier positions by their keys, so a recurrence in the replayed game is
    only visible if make_move maintains the key exactly (C03; seed C17-6b: a castling word toggled again each time a king or rook
    leaves its home square makes the key depend on the path). The C03 clauses are re-reported here as that premise."""
    import core
    import pC03
    sub = type(rep)(rep.prop, rep.tier)
    q = core.QUIET
    core.QUIET = True
    try:
        pC03.run(fx, sub, rep.tier)
    finally:
        core.QUIET = q
    for v in sub.violations:
        rep.violation("C17-KEY", v["key"].replace("C03-", "C17-KEY/", 1), v["msg"] + " (positions of the replayed game are then not recognised when they recur)", v["site"])
    rep.obligations += sub.obligations
    rep.discharged += sub.discharged
    rep.rule("C17-KEY", sub.obligations, 100, not sub.violations, "keys of the replayed positions (shared with C03)")


def rule_repscan(fx, rep):
    """'... with its history, so that repetitions across the game are visible to the search': the history the position command
    builds is only as visible as the scan that reads it. The scan's window and key comparison are the C11-REPKEY clauses,
    re-reported here as that premise (seed C17-5b: an early `false` for halfmove clocks up to 4 hides a repetition that
    completes exactly four plies after the last irreversible move of the replayed game)."""
    import core
    import pC11
    sub = type(rep)(rep.prop, rep.tier)
    q = core.QUIET
    core.QUIET = True
    try:
        pC11.rule_repkey(fx, sub)
    finally:
        core.QUIET = q
    for v in sub.violations:
        rep.violation("C17-REPSCAN", v["key"].replace("C11-REPKEY", "C17-REPSCAN"), v["msg"] + " (repetitions of the replayed game are then not visible to the search)", v["site"])
    for x in sub.notes:
        rep.notes.append(x.replace("C11-REPKEY", "C17-REPSCAN"))
    rep.obligations += sub.obligations
    rep.discharged += sub.discharged
    r = sub.rules[-1]
    rep.rule("C17-REPSCAN", r["instances"], r["floor"], r["status"] == "ok", "the scan over the replayed history (shared with C11-REPKEY)")


def rule_movegen(fx, rep):
    """Each move text is matched against the legal moves generated for the current position (a text that matches none aborts the
    engine), so the position command also rests on the move generator's clauses. The C01 rules are re-reported here as a
    premise of this property (seed C17-4a: an en-passant capture missing from the list)."""
    import core
    import pC01
    sub = type(rep)(rep.prop, rep.tier)
    q = core.QUIET
    core.QUIET = True
    try:
        pC01.run(fx, sub, "quick")
    finally:
        core.QUIET = q
    for v in sub.violations:
        rep.violation("C17-MOVEGEN", "C17-MOVEGEN/" + v["key"], v["msg"] + " (a game containing or needing that move is then replayed wrongly or aborts the engine)", v["site"])
    rep.obligations += sub.obligations
    rep.discharged += sub.discharged
    rep.rule("C17-MOVEGEN", sub.obligations, 60, not sub.violations, "move generator clauses (shared with C01)")


def rule_forward(fx, rep):
    """The position command plays each matched move with Game::make_move; "the position reached under the rules" therefore
    rests on make_move's forward bookkeeping (castling-rights loss, en-passant target / victim, promotion placement, clock
    reset). These are the C02-FORWARD clauses, re-reported here as a premise of this property (seed C17-3)."""
    import core
    import pC02
    sub = type(rep)(rep.prop, rep.tier)
    q = core.QUIET
    core.QUIET = True
    try:
        pC02.rule_forward(fx, sub)
    finally:
        core.QUIET = q
    vs = [v for v in sub.violations if v["key"].startswith("C02-FORWARD/")]
    for v in vs:
        rep.violation("C17-FORWARD", v["key"].replace("C02-FORWARD", "C17-FORWARD"), v["msg"] + " (the position after `position .. moves ..` is then not the one the rules prescribe)", v["site"])
    rep.obligations += sub.obligations
    rep.discharged += sub.discharged
    rep.rule("C17-FORWARD", sub.obligations, 5, not vs, "make_move's forward bookkeeping (shared with C02-FORWARD)")


def rule_letters(fx, rep):
    ok = True
    n = 0

    def bad(key, msg, b):
        nonlocal ok
        ok = False
        rep.violation("C17-LETTERS", f"C17-LETTERS/{key}", msg, {"fn": b.name, "file": b.file, "line": b.line})

    # promotion
    rd = fx.one("uci::parser::uci_promotion")
    rt = {c: pC06.enum_in(e, "PromotionPieceKind") for c, e in pC06.char_table(fx, rd).items()}
    wr = fx.one("UciMove::notation")
    kinds = {v["discr"]: v["name"] for v in fx.adt("piece::PromotionPieceKind")["variants"]}
    wt = {}
    # the letter table may sit in the printer itself or in a string-valued helper it calls
    wbodies = [wr] + [fx.body(callee_name(t)) for bb, t in wr.calls()
                      if callee_name(t) and fx.body(callee_name(t)) is not None and norm(callee_name(t)).startswith("engine::uci::") and "str" in fx.body(callee_name(t)).local_ty(0)]
    # ... or in a helper handed to a combinator as a function value (`self.promotion.map_or("", promotion_letter)`)
    for ref in wr.fn_refs():
        hb = fx.body(ref.get("res") or ref.get("fn") or "") if (ref.get("res") or ref.get("fn")) else None
        if hb is not None and hb not in wbodies and norm(hb.name).startswith("engine::uci::") and "str" in (hb.local_ty(0) or ""):
            wbodies.append(hb)
    for wb in wbodies:
        for bb, j, s in wb.stmts():
            rv = s.get("rv")
            if s["k"] == "assign" and rv["k"] == "use" and rv["op"].get("k") == "const" and const_str(rv["op"]) not in (None, ""):
                lit = const_str(rv["op"])
                for (e, pol, w) in guard_conditions(wb, bb, expand_named=True):
                    d = deep_strip(e)
                    if isinstance(d, tuple) and d[0] == "discr" and isinstance(pol, int) and (find_kind_discr(d) or
                                                                                              (wb is not wr and deep_strip(d[1])[:2] == ("arg", 1) and (wb.local_ty(1) or "").endswith("piece::PromotionPieceKind"))):
                        wt[kinds.get(pol)] = lit
    rep.sample({"rule": "C17-LETTERS", "reader_promotion": rt, "writer_promotion": wt})
    n += 1
    undecided_l = 0
    good = set(rt) == set("nbrq") and len(set(rt.values())) == 4 and all(wt.get(k) == c for c, k in rt.items())
    if not rt:
        rep.notes.append(f"C17-LETTERS: the promotion reader `{rd.name}` is not a `match` on the character; not decided")
        undecided_l += 1
        good = True
    rep.obligation(good)
    if not good:
        bad("promotion", f"promotion letters: reader {rt}, printer {wt}; expected inverse bijections over n, b, r, q (lower case)", rd)
    # Move's own Debug printing uses the same letters through UciMove? check From<Move> keeps the triple
    fm = [b for b in fx.fn_bodies() if norm(b.name).endswith("UciMove as std::convert::From<chess::moves::Move>>::from")]
    n += 1
    good = len(fm) == 1
    if good:
        b = fm[0]
        good = False
        for bb, j, s in b.stmts():
            rv = s.get("rv")
            if rv and rv["k"] == "agg" and rv.get("agg") == "adt" and norm(rv["adt"]).endswith("UciMove"):
                m = dict(zip(rv["fields"], [deep_strip(b.expr(o, expand_named=True, at=bb)) for o in rv["ops"]]))
                good = all(isinstance(m[f], tuple) and m[f][0] == "call" and m[f][1].endswith(acc) for f, acc in (("src", "Move::src"), ("dst", "Move::dst"), ("promotion", "Move::promotion")))
    rep.obligation(good)
    if not good:
        bad("from-move", "UciMove::from(Move) does not copy (src, dst, promotion) from the move's own accessors", fm[0] if fm else rd)
    # files / ranks
    for what, rfn, wfn, adt in (("file", "uci::parser::uci_file", "File::notation", "square::File"), ("rank", "uci::parser::uci_rank", "Rank::notation", "square::Rank")):
        rb, wb = fx.one(rfn), fx.one(wfn)
        rtab = {c: pC06.enum_in(e, adt) for c, e in pC06.char_table(fx, rb).items()}
        variants = {v["discr"]: v["name"] for v in fx.adt(adt)["variants"]}
        if not rtab:
            # lookup-table form: `TABLE[CHARS.find(ch).unwrap()]` with a constant string and a constant array of the enum
            rtab = lookup_reader(fx, rb, variants)
            if rtab is None:
                rep.notes.append(f"C17-LETTERS: the {what} reader `{rb.name}` is neither a `match` on the character nor a constant lookup table; not decided")
                undecided_l += 1
                continue
        wtab = {}
        for conds, ret, bb in decision_paths(wb):
            if ret is None:
                continue
            v = [variants.get(val) for (e, val) in conds if isinstance(val, int) and isinstance(deep_strip(e), tuple) and deep_strip(e)[0] == "discr"]
            lit = [x[1] for x in walk(ret) if isinstance(x, tuple) and x and x[0] == "const" and isinstance(x[1], str)]
            if v and v[-1] and lit:
                wtab[v[-1]] = lit[0]
        n += 1
        good = len(rtab) == 8 and len(set(rtab.values())) == 8 and all(wtab.get(v) == c for c, v in rtab.items())
        rep.obligation(good)
        if not good:
            bad(what, f"{what} letters: reader {rtab}, printer {wtab}", rb)
    # the move reader builds (src, dst, promotion) in reading order; the printer prints src then dst
    um = fx.one("uci::parser::uci_move")
    n += 1
    good = False
    for k, cb in fx.bodies.items():
        if k.startswith(um.name + "::{closure"):
            for bb, j, s in cb.stmts():
                rv = s.get("rv")
                if rv and rv["k"] == "agg" and rv.get("agg") == "adt" and norm(rv["adt"]).endswith("UciMove"):
                    m = dict(zip(rv["fields"], [show(deep_strip(cb.expr(o, expand_named=True, at=bb))) for o in rv["ops"]]))
                    # parsed tuple components .0 .1 .2 in this order
                    good = m.get("src", "").endswith(".0") and m.get("dst", "").endswith(".1") and m.get("promotion", "").endswith(".2")
    rep.obligation(good)
    if not good:
        bad("triple-order", "uci_move does not build UciMove{src, dst, promotion} from the first, second and third parsed component", um)
    rep.rule("C17-LETTERS", n, 5 - undecided_l, ok, "move-text letter tables")


def lookup_reader(fx, rb, variants):
    """{char: variant name} for a reader of the form TABLE[CHARS.find(ch).unwrap()] (constant string, constant enum array)"""
    for conds, ret, bb in decision_paths(rb):
        if ret is None:
            continue
        for x in walk(ret):
            if not (isinstance(x, tuple) and x and x[0] == "index"):
                continue
            base, idx = deep_strip(x[1]), deep_strip(x[2])
            if not (isinstance(base, tuple) and base and base[0] == "constpath"):
                continue
            tab = [v for k, v in fx.consts.items() if norm(k) == base[1]]
            fc = find_calls(idx, "str::find")
            if not tab or "bytes" not in tab[0] or not fc:
                continue
            chars = deep_strip(fc[0][2][0])
            if not (isinstance(chars, tuple) and chars[0] == "const" and isinstance(chars[1], str)):
                continue
            raw = bytes.fromhex(tab[0]["bytes"])
            if len(raw) != len(chars[1]):
                return None
            return {c: variants.get(raw[i]) for i, c in enumerate(chars[1])}
    return None


def find_kind_discr(d):
    """the discriminant tested is that of the payload of `self.promotion` (the piece kind), not of the Option itself"""
    inner = d[1]
    return isinstance(inner, tuple) and inner and inner[0] == "field" and inner[2] == "0" and isinstance(inner[1], tuple) and inner[1][0] == "as" and inner[1][2] == "Some"


# ---- C17-CASTLE ----------------------------------------------------------------------------


def square_const(fx, e):
    """numeric index of a Square constant expression"""
    e = deep_strip(e)
    if isinstance(e, tuple) and e[0] == "constpath":
        cv = [v for k, v in fx.consts.items() if norm(k) == e[1]]
        if cv and "bits" in cv[0]:
            return cv[0]["bits"]
        if cv and "int" in cv[0]:
            return cv[0]["int"]
    if isinstance(e, tuple) and e[0] == "agg" and str(e[1]).endswith("Square::Square") and e[2] and e[2][0][0] == "const":
        return e[2][0][1]
    return None


def per_player(fx, fname, generic=None):
    """{player: ret_expr} for a `match player {..}` function (optionally one instantiation of a const-generic)"""
    b = fx.one(fname)
    players = {v["discr"]: v["name"] for v in fx.adt("player::Player")["variants"]}
    out = {}
    for conds, ret, bb in decision_paths(b):
        if ret is None:
            continue
        key = []
        for (e, v) in conds:
            d = deep_strip(e)
            if isinstance(d, tuple) and d[0] == "discr" and isinstance(v, int):
                key.append(players.get(v))
            elif isinstance(v, int) or isinstance(v, tuple):
                # const generic switch: value 0 = false
                key.append(("K", v != 0 if isinstance(v, int) else True))
        out[tuple(key)] = ret
    return out


def rule_castle(fx, rep):
    ok = True
    n = 0

    def bad(key, msg, b=None):
        nonlocal ok
        ok = False
        rep.violation("C17-CASTLE", f"C17-CASTLE/{key}", msg, {"fn": b.name if b else None, "file": b.file if b else "src/chess/square.rs", "line": b.line if b else None})

    bcs = fx.one("bitboards::castle_squares")
    gen = {}
    for conds, ret, bb in decision_paths(bcs):
        if ret is None:
            continue
        kingside = None
        player = None
        players = {v["discr"]: v["name"] for v in fx.adt("player::Player")["variants"]}
        for (e, v) in conds:
            d = deep_strip(e)
            if isinstance(d, tuple) and d[0] == "discr" and isinstance(v, int):
                player = players.get(v)
            else:
                kingside = (v != 0) if isinstance(v, int) else (True if v[0] == "otherwise" and v[1] == (0,) else None)
        r = deep_strip(ret)
        if isinstance(r, tuple) and r[0] == "agg" and len(r[2]) == 3:
            empty = r[2][0]
            ev = None
            if isinstance(deep_strip(empty), tuple) and deep_strip(empty)[0] == "constpath":
                cv = [v for k, v in fx.consts.items() if norm(k) == deep_strip(empty)[1]]
                ev = cv[0].get("bits") if cv else None
            gen[(player, kingside)] = (ev, square_const(fx, r[2][1]), square_const(fx, r[2][2]))
    rep.sample({"rule": "C17-CASTLE", "generator_table": {f"{p} {'O-O' if k else 'O-O-O'}": list(v) for (p, k), v in gen.items()}})
    n += 1
    good = len(gen) == 4 and all(None not in v for v in gen.values()) and all(k[0] in ("White", "Black") and k[1] in (True, False) for k in gen)
    rep.obligation(good)
    if not good:
        bad("extract", f"could not evaluate bitboards::castle_squares for the four (colour, side) cases: {gen}", bcs)
        rep.rule("C17-CASTLE", n, 10, False)
        return

    missing = []

    class _Any(dict):
        # a table whose function is not there under its name (folded into a const-generic, say): its entries are not decided
        def get(self, k, d=None):
            return _ANY

    class _AnyV:
        def __eq__(self, o):
            return True

        def __hash__(self):
            return 0

        def __add__(self, o):
            return self
    _ANY = _AnyV()

    def pp(fname):
        out = {}
        if not fx.find(fname):
            missing.append(fname)
            return _Any()
        for key, ret in per_player(fx, fname).items():
            if key and key[0] in ("White", "Black"):
                out[key[0]] = square_const(fx, ret)
        return out
    ks = pp("squares::king_start")
    kdest, qdest = pp("squares::kingside_castle_dest"), pp("squares::queenside_castle_dest")
    krs, qrs = pp("squares::kingside_rook_start"), pp("squares::queenside_rook_start")
    kre, qre = pp("squares::kingside_rook_castle_end"), pp("squares::queenside_rook_castle_end")
    if any("rook_castle_end" in m for m in missing):
        kre = qre = _Any()  # the two rook-end tables became one function: neither is the table it is named after
    if missing:
        rep.notes.append(f"C17-CASTLE: {missing} not found under that name; the entries of those tables are not decided (the generator's own constants still are)")
    rep.sample({"rule": "C17-CASTLE", "king_start": dict(ks), "kingside_dest": dict(kdest), "queenside_dest": dict(qdest), "rook_start": [dict(krs), dict(qrs)], "rook_end": [dict(kre), dict(qre)]})
    for p, rank0 in (("White", 0), ("Black", 56)):
        checks = [
            ("king-start", ks.get(p) == rank0 + 4),
            ("kingside-target", gen[(p, True)][1] == kdest.get(p) == rank0 + 6),
            ("queenside-target", gen[(p, False)][1] == qdest.get(p) == rank0 + 2),
            ("kingside-transit", gen[(p, True)][2] == kre.get(p) == rank0 + 5),
            ("queenside-transit", gen[(p, False)][2] == qre.get(p) == rank0 + 3),
            ("rook-starts", krs.get(p) == rank0 + 7 and qrs.get(p) == rank0),
            ("kingside-empty", gen[(p, True)][0] == (1 << (rank0 + 5)) | (1 << (rank0 + 6))),
            ("queenside-empty", gen[(p, False)][0] == (1 << (rank0 + 1)) | (1 << (rank0 + 2)) | (1 << (rank0 + 3))),
        ]
        for name, good in checks:
            n += 1
            rep.obligation(good)
            if not good:
                bad(f"{p}/{name}", f"castling constants for {p} disagree ({name}): generator {gen[(p, True)]}/{gen[(p, False)]}, king start {ks.get(p)}, destinations {kdest.get(p)}/{qdest.get(p)}, rook {krs.get(p)}->{kre.get(p)} / {qrs.get(p)}->{qre.get(p)}")
    # squares::castle_squares maps the kingside destination to (kingside rook start, kingside rook end) etc.
    scs = fx.one("squares::castle_squares")
    n += 1
    pairs = []
    for conds, ret, bb in decision_paths(scs):
        if ret is None:
            continue
        r = deep_strip(ret)
        if isinstance(r, tuple) and r[0] == "agg" and str(r[1]).endswith("Option::Some"):
            tup = deep_strip(r[2][0])
            names = [x[1].split("::")[-1] for x in tup[2] if isinstance(x, tuple) and x[0] == "call"] if isinstance(tup, tuple) and tup[0] == "agg" else []
            cmpd = []
            for (e, v) in conds:
                co = cmp_op(e)
                if co and isinstance(v, (int, tuple)):
                    truth = (v != 0) if isinstance(v, int) else True
                    if truth:
                        cmpd += [c[1].split("::")[-1] for c in find_calls(e, "kingside_castle_dest", "queenside_castle_dest")]
            pairs.append((tuple(cmpd[-1:]), tuple(names)))
    want = {(("kingside_castle_dest",), ("kingside_rook_start", "kingside_rook_castle_end")), (("queenside_castle_dest",), ("queenside_rook_start", "queenside_rook_castle_end"))}
    good = set(pairs) == want
    if not good and missing:
        rep.notes.append("C17-CASTLE: the rook relocation table is written with functions other than the four named ones; not decided")
        good = True
    rep.obligation(good)
    if not good:
        bad("rook-relocation", f"squares::castle_squares maps {pairs}; expected kingside destination -> (kingside rook start, end) and queenside likewise", scs)
    rep.rule("C17-CASTLE", n, 17, ok, "castling constant tables agree")


# ---- C17-MATCH -----------------------------------------------------------------------------


def rule_match(fx, rep):
    ok = True
    n = 0

    def bad(key, msg, b, line=None):
        nonlocal ok
        ok = False
        rep.violation("C17-MATCH", f"C17-MATCH/{key}", msg, {"fn": b.name, "file": b.file, "line": line or b.line})

    em = [b for b in fx.fn_bodies() if norm(b.name).endswith("MoveListExt>::expect_matching")]
    n += 1
    good = len(em) == 1
    if good:
        b = em[0]
        good = False
        for bb, j, s in b.stmts():
            if s["k"] == "assign" and s["lhs"]["l"] == 0 and not s["lhs"].get("p"):
                val = deep_strip(b.expr(s["rv"].get("op"), expand_named=True, at=bb)) if s["rv"]["k"] == "use" else None
                # an element of the list itself: indexed, or drawn from an iteration over `self`
                from_list = val is not None and (bool(find_calls(val, "slice::get", "ArrayVec::get", "Index>::index")) or
                                                 any(any(isinstance(x, tuple) and len(x) >= 2 and x[0] == "arg" and x[1] == 1 for x in walk(c))
                                                     for c in find_calls(val, "Iterator>::next")))
                need = {"Move::src": 2, "Move::dst": 3, "Move::promotion": 4}
                have = set()
                for (e, pol, w) in guard_conditions(b, bb, expand_named=True):
                    co = cmp_op(e)
                    if co and co[0] == "Eq" and pol is True:
                        x, y = deep_strip(co[1]), deep_strip(co[2])
                        for acc, argi in need.items():
                            for p, q in ((x, y), (y, x)):
                                if isinstance(p, tuple) and p[0] == "call" and p[1].endswith(acc) and deep_strip(p[2][0]) == val and isinstance(q, tuple) and q[0] == "arg" and q[1] == argi:
                                    have.add(acc)
                if from_list and have == set(need):
                    good = True
                elif from_list:
                    missing = sorted(set(need) - have)
                    bad("guards", f"expect_matching returns a list element without requiring equality of {missing} with its parameters", b, s.get("line"))
    if not good and ok and em:
        # search-combinator form: self.iter().copied().find(|mv| mv.src() == src && ..): the comparisons sit in the closure
        b = em[0]
        for bb, t in b.calls():
            cn = norm(callee_name(t) or "")
            if cn.endswith("Iterator>::find") or cn.endswith("Iterator::find") or cn.endswith("Iterator>::position"):
                it = b.expr(t["args"][0], expand_named=True, at=bb)
                cl = [x for x in walk(b.expr(t["args"][1], expand_named=True, at=bb)) if isinstance(x, tuple) and x and x[0] == "agg" and str(x[1]).startswith("closure:")]
                cb = fx.bodies.get(cl[0][1][len("closure:"):]) if cl else None
                if cb is not None and any(isinstance(x, tuple) and len(x) >= 2 and x[0] == "arg" and x[1] == 1 for x in walk(it)):
                    called = {norm(callee_name(t2) or "").split("::")[-1] for _, t2 in cb.calls() if "moves::Move::" in norm(callee_name(t2) or "")}
                    # ... or in a predicate method of Move the closure delegates to (`mv.is_matching(src, dst, promotion)`)
                    for _, t2 in cb.calls():
                        hb2 = fx.body(callee_name(t2)) if callee_name(t2) else None
                        if hb2 is not None and "moves::Move::" in norm(hb2.name):
                            called |= {norm(callee_name(t3) or "").split("::")[-1] for _, t3 in hb2.calls() if "moves::Move::" in norm(callee_name(t3) or "")}
                    missing = sorted({"src", "dst", "promotion"} - called)
                    if missing:
                        bad("guards", f"expect_matching searches the list with a predicate that never looks at {missing}", b, t.get("line"))
                    else:
                        good = True
                        rep.notes.append("C17-MATCH: expect_matching uses an iterator search; the predicate's three accessor comparisons are present, their exact form is not decided")
    rep.obligation(good)
    if not good and ok:
        bad("shape", "expect_matching does not return a list element under equality of (src, dst, promotion)", em[0] if em else fx.one("uci::Uci::execute"))
    # Position arm
    ex = fx.one("uci::Uci::execute")
    arms = pC05.arm_regions(fx, ex)
    entry, region = arms["Position"]
    calls = [(bb, ex.blocks[bb]["term"]) for bb in sorted(region) if ex.blocks[bb]["term"]["k"] == "call"]
    emc = [(bb, t) for bb, t in calls if norm(callee_name(t) or "").endswith("MoveListExt>::expect_matching") or norm(callee_name(t) or "").endswith("MoveListExt::expect_matching")]
    n += 1
    good = len(emc) == 1
    if good:
        bb, t = emc[0]
        args = [deep_strip(ex.expr(a, expand_named=True, at=bb)) for a in t["args"]]
        flds = [a[2] if isinstance(a, tuple) and a[0] == "field" else None for a in args[1:4]]
        same_mv = len({a[1] for a in args[1:4] if isinstance(a, tuple) and a[0] == "field"}) == 1
        good = flds == ["src", "dst", "promotion"] and same_mv and bool(find_calls(args[0], "Game::moves"))
        if not good:
            bad("triple", f"the position command hands expect_matching {[show(a)[:40] for a in args[1:4]]}, not (mv.src, mv.dst, mv.promotion) of one parsed move against game.moves()", ex, t.get("line"))
    rep.obligation(good)
    # the move made is the matched one, on the same local game; self.game assigned after the loop from that local
    mk = [(bb, t) for bb, t in calls if norm(callee_name(t) or "").endswith("Game::make_move")]
    n += 1
    good = len(mk) == 1 and len(emc) == 1
    local_game = None
    if good:
        bb, t = mk[0]
        mv = deep_strip(ex.expr(t["args"][1], expand_named=True, at=bb))
        g = deep_strip(ex.expr(t["args"][0], expand_named=False, at=bb))
        good = isinstance(mv, tuple) and mv[0] == "call" and mv[1].endswith("expect_matching") and isinstance(g, tuple) and g[0] == "var"
        local_game = g[2] if good else None
        # the game may be reached through a `&mut` parameter of a (spliced-in) helper: follow copies / borrows back to the local
        for _ in range(6):
            ds = ex.defs().get(local_game, []) if local_game is not None else []
            if len(ds) == 1 and ds[0][0] == "stmt" and ds[0][3]["k"] == "assign":
                rv0 = ds[0][3]["rv"]
                src = rv0.get("pl") if rv0["k"] == "ref" else (rv0.get("op", {}).get("pl") if rv0["k"] == "use" else None)
                if src is not None and (not src.get("p") or src.get("p") == ["*"]):
                    local_game = src["l"]
                    continue
            break
        # the list searched comes from the same local game
        lst = find_calls(mv, "Game::moves")
        good = good and bool(lst) and deep_strip(ex.expr(emc[0][1]["args"][0], expand_named=False, at=emc[0][0])) is not None
    rep.obligation(good)
    if not good:
        bad("make", "the position command does not play the matched move on its local game", ex)
    n += 1
    good = False
    if local_game is not None:
        # definition of the local: Game::new() or from_fen(..)
        srcs = set()
        for d in ex.defs().get(local_game, []):
            if d[0] == "call":
                srcs.add(norm(callee_name(d[2]) or "").split("::")[-1])
            elif d[0] == "stmt":
                e = ex.expr(d[3]["rv"].get("op"), expand_named=True, at=d[1]) if d[3]["rv"]["k"] == "use" else None
                if e is not None:
                    for c in find_calls(e, "Game::new", "Game::from_fen"):
                        srcs.add(c[1].split("::")[-1])
        fresh = srcs and srcs <= {"new", "from_fen"}
        # assignment self.game = <local> in the region, not inside the move loop
        for bb in sorted(region):
            for j, s in enumerate(ex.blocks[bb]["stmts"]):
                if s["k"] == "assign" and s["lhs"]["l"] == 1 and [p.get("n") for p in s["lhs"].get("p", []) if isinstance(p, dict)] == ["game"]:
                    v = deep_strip(ex.expr(s["rv"].get("op"), expand_named=False, at=bb)) if s["rv"]["k"] == "use" else None
                    in_loop = bb in ex.reachable(ex.succs()[bb][0]) if ex.succs()[bb] else False
                    after_moves = mk and not (mk[0][0] in ex.reachable(bb))
                    if isinstance(v, tuple) and v[0] == "var" and v[2] == local_game and not in_loop and after_moves and fresh:
                        good = True
    rep.obligation(good)
    if not good:
        bad("install", "the position command does not install a fresh game (Game::new() / from_fen) only after all moves were applied", ex)
    # every move of the list is applied: the loop that plays the moves is left towards the installation only when the list is
    # exhausted (the `None` of the iterator), never on a condition on the game (a "game is over" test drops the rest of a legal game)
    if good and mk:
        mkb = mk[0][0]
        loop = {x for x in ex.reachable(mkb) if mkb in ex.reachable(x)}
        inst = [bb for bb in sorted(region) for s_ in ex.blocks[bb]["stmts"]
                if s_["k"] == "assign" and s_["lhs"]["l"] == 1 and [p_.get("n") for p_ in s_["lhs"].get("p", []) if isinstance(p_, dict)] == ["game"]]
        early = None
        for a in sorted(loop):
            t_ = ex.blocks[a]["term"]
            for sx in ex.succ(a):
                if sx in loop or not any(i_ in ex.reachable(sx) or i_ == sx for i_ in inst):
                    continue
                n += 1
                txt = show(ex.expr(t_["discr"], expand_named=True, at=a)) if t_["k"] == "switch" else ""
                is_next = t_["k"] == "switch" and ("Iterator>::next" in txt or "Iterator::next" in txt)
                rep.obligation(is_next)
                if not is_next and early is None:
                    early = (a, t_.get("line"), txt[:100])
        if early is not None:
            bad("all-moves", f"the loop that plays the moves of the position command can be left before the move list is exhausted (line {early[1]}, on `{early[2]}`): "
                "the remaining moves of a legal game are silently dropped and an earlier position is installed", ex, early[1])
    rep.rule("C17-MATCH", n, 4, ok, "move matching by (from, to, promotion) and game installation")


P = "src/engine/uci/parser.rs"
MVR = "src/engine/uci/move.rs"
SQ = "src/chess/square.rs"
_IMP = ("    combinator::{eof, map, opt, value},", "    combinator::{eof, map, opt, value, verify},")
_TUP = "        tuple((uci_square, uci_square, opt(uci_promotion))),\n        |(src, dst, promotion)| UciMove {"
MUTANTS = [
    {"name": "halfmove clock read from a FEN clamped to 100 (seed C17-13a)", "expect": "C17-FEN/install-arg",
     "edits": __import__("shared_mutants").edits_from_patch("seeded/C17-13a/patch.diff")},
    {"name": "position stops applying moves at a fifty-move / dead-material position (seed C17-8a)", "expect": "C17-MATCH/all-moves",
     "edits": [("src/engine/uci/mod.rs", "                for mv in moves {\n                    let matching_move = game.moves().expect_matching(mv.src, mv.dst, mv.promotion);\n                    game.make_move(matching_move);\n                }\n\n                self.game = game;",
                "                for mv in moves {\n                    if game.is_stalemate_by_fifty_move_rule() || game.is_stalemate_by_insufficient_material() {\n                        break;\n                    }\n\n                    let matching_move = game.moves().expect_matching(mv.src, mv.dst, mv.promotion);\n                    game.make_move(matching_move);\n                }\n\n                self.game = game;")]},
    {"name": "move parser accepts a promotion suffix only on a straight push (seed C17-7b)", "expect": "C17-FILTER/uci_move",
     "edits": [(P, _IMP[0], _IMP[1]),
               (P, "fn uci_move(input: &str)", "fn is_promotion_step(src: Square, dst: Square) -> bool {\n    src.file() == dst.file() && matches!((src.rank(), dst.rank()), (crate::chess::square::Rank::R7, crate::chess::square::Rank::R8) | (crate::chess::square::Rank::R2, crate::chess::square::Rank::R1))\n}\n\nfn uci_move(input: &str)"),
               (P, _TUP, "        verify(tuple((uci_square, uci_square, opt(uci_promotion))), |(src, dst, promotion)| promotion.is_none() || is_promotion_step(*src, *dst)),\n        |(src, dst, promotion)| UciMove {")]},
    {"name": "move parser refuses a promotion suffix unless the destination is on a last rank (input hardening)", "benign": True,
     "edits": [(P, _IMP[0], _IMP[1]),
               (P, _TUP, "        verify(tuple((uci_square, uci_square, opt(uci_promotion))), |(_src, dst, promotion)| promotion.is_none() || matches!(dst.rank(), crate::chess::square::Rank::R8 | crate::chess::square::Rank::R1)),\n        |(src, dst, promotion)| UciMove {")]},
    {"name": "castling word toggled again for a right that is already gone (seed C17-6b)", "expect": "C17-KEY/PAIR/try_remove_castle_rights",
     "edits": [("src/chess/game.rs", "        if !castle_rights.can_castle_to_side(castle_rights_side) {\n            return;\n        }\n", "        let _ = castle_rights.can_castle_to_side(castle_rights_side);\n")]},
    {"name": "repetition scan skipped for clocks up to four (seed C17-5b)", "expect": "C17-REPSCAN/early-return",
     "edits": [("src/chess/game.rs", "    pub fn is_repeated_position(&self) -> bool {\n", "    pub fn is_repeated_position(&self) -> bool {\n        if self.halfmove_clock <= 4 {\n            return false;\n        }\n")]},
    {"name": "promotion no longer resets the halfmove clock (seed C17-3)", "expect": "C17-FORWARD",
     "edits": [("src/chess/game.rs", "            maybe_captured_piece.is_some() || moved_piece.kind == PieceKind::Pawn;", "            maybe_captured_piece.is_some() || (moved_piece.kind == PieceKind::Pawn && mv.promotion().is_none());")]},
    {"name": "reader maps b to knight", "expect": "C17-LETTERS/promotion",
     "edits": [(P, "            'n' => PromotionPieceKind::Knight,\n            'b' => PromotionPieceKind::Bishop,", "            'n' => PromotionPieceKind::Bishop,\n            'b' => PromotionPieceKind::Knight,")]},
    {"name": "printer uses upper-case Q", "expect": "C17-LETTERS/promotion",
     "edits": [(MVR, "                    PromotionPieceKind::Queen => \"q\",", "                    PromotionPieceKind::Queen => \"Q\",")]},
    {"name": "expect_matching ignores the promotion piece", "expect": "C17-MATCH",
     "edits": [("src/chess/moves.rs", "            if mv.src() == src && mv.dst() == dst && mv.promotion() == promotion {", "            if mv.src() == src && mv.dst() == dst {")]},
    {"name": "black queenside rook ends on c8", "expect": "C17-CASTLE",
     "edits": [(SQ, "            Player::White => D1,\n            Player::Black => D8,", "            Player::White => D1,\n            Player::Black => C8,")]},
    {"name": "position installs the game before the last move", "expect": "C17-MATCH/install",
     "edits": [("src/engine/uci/mod.rs", "                for mv in moves {\n                    let matching_move = game.moves().expect_matching(mv.src, mv.dst, mv.promotion);\n                    game.make_move(matching_move);\n                }\n\n                self.game = game;",
                "                for mv in moves {\n                    let matching_move = game.moves().expect_matching(mv.src, mv.dst, mv.promotion);\n                    self.game = game.clone();\n                    game.make_move(matching_move);\n                }")]},
    {"name": "uci_move swaps source and destination", "expect": "C17-LETTERS/triple-order",
     "edits": [(P, "        |(src, dst, promotion)| UciMove {\n            src,\n            dst,\n            promotion,\n        },", "        |(src, dst, promotion)| UciMove {\n            src: dst,\n            dst: src,\n            promotion,\n        },")]},
]
