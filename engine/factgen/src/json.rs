// Minimal JSON value + writer (no dependencies are available offline for a rustc_private driver).
pub enum J {
    Null,
    Bool(bool),
    Int(i128),
    UInt(u128),
    Float(f64),
    Str(String),
    Arr(Vec<J>),
    Obj(Vec<(String, J)>),
}

impl J {
    pub fn obj() -> J {
        J::Obj(Vec::new())
    }
    pub fn arr() -> J {
        J::Arr(Vec::new())
    }
    pub fn s(s: &str) -> J {
        J::Str(s.to_string())
    }
    pub fn i(i: i128) -> J {
        J::Int(i)
    }
    pub fn u(u: u128) -> J {
        J::UInt(u)
    }
    pub fn f(f: f64) -> J {
        J::Float(f)
    }
    pub fn b(b: bool) -> J {
        J::Bool(b)
    }
    pub fn put(&mut self, k: &str, v: J) {
        if let J::Obj(o) = self {
            o.push((k.to_string(), v));
        }
    }
    pub fn push(&mut self, v: J) {
        if let J::Arr(a) = self {
            a.push(v);
        }
    }
    pub fn write(&self, out: &mut String) {
        match self {
            J::Null => out.push_str("null"),
            J::Bool(b) => out.push_str(if *b { "true" } else { "false" }),
            J::Int(i) => out.push_str(&i.to_string()),
            J::UInt(u) => out.push_str(&u.to_string()),
            J::Float(f) => {
                if f.is_finite() {
                    out.push_str(&format!("{f:?}"))
                } else {
                    out.push_str("null")
                }
            }
            J::Str(s) => esc(s, out),
            J::Arr(a) => {
                out.push('[');
                for (i, x) in a.iter().enumerate() {
                    if i > 0 {
                        out.push(',');
                    }
                    x.write(out);
                }
                out.push(']');
            }
            J::Obj(o) => {
                out.push('{');
                for (i, (k, v)) in o.iter().enumerate() {
                    if i > 0 {
                        out.push(',');
                    }
                    esc(k, out);
                    out.push(':');
                    v.write(out);
                }
                out.push('}');
            }
        }
    }
}

fn esc(s: &str, out: &mut String) {
    out.push('"');
    for c in s.chars() {
        match c {
            '"' => out.push_str("\\\""),
            '\\' => out.push_str("\\\\"),
            '\n' => out.push_str("\\n"),
            '\r' => out.push_str("\\r"),
            '\t' => out.push_str("\\t"),
            c if (c as u32) < 0x20 => out.push_str(&format!("\\u{:04x}", c as u32)),
            c => out.push(c),
        }
    }
    out.push('"');
}
