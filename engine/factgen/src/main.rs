// factgen: rustc_private driver that dumps a simplified, fully resolved MIR fact base of the
// `engine` crate (jgilchrist/tcheran) as one JSON file per compiler process.
//
// Injected with RUSTC_WORKSPACE_WRAPPER under `cargo +nightly check`; argv[1] is the real rustc
// path and is dropped.  Output path: $FACTGEN_OUT (one write per process); $FACTGEN_NONCE and
// $FACTGEN_CONFIG are copied into the file so the caller can reject stale facts.
#![feature(rustc_private)]
#![allow(clippy::all)]

extern crate rustc_abi;
extern crate rustc_driver;
extern crate rustc_hir;
extern crate rustc_interface;
extern crate rustc_middle;
extern crate rustc_span;

mod json;

use json::J;
use rustc_hir::def::DefKind;
use rustc_hir::def_id::{DefId, LocalDefId};
use rustc_middle::mir::{self, interpret, *};
use rustc_middle::ty::{self, Instance, Ty, TyCtxt, TypingEnv};
use rustc_span::Span;

struct Cb;

impl rustc_driver::Callbacks for Cb {
    fn after_analysis<'tcx>(
        &mut self,
        _c: &rustc_interface::interface::Compiler,
        tcx: TyCtxt<'tcx>,
    ) -> rustc_driver::Compilation {
        let name = tcx.crate_name(rustc_hir::def_id::LOCAL_CRATE).to_string();
        let want = std::env::var("FACTGEN_CRATE").unwrap_or_else(|_| "engine".to_string());
        if name == want {
            if let Ok(out) = std::env::var("FACTGEN_OUT") {
                let facts = dump_crate(tcx);
                let mut s = String::with_capacity(64 << 20);
                facts.write(&mut s);
                let tmp = format!("{out}.tmp{}", std::process::id());
                std::fs::write(&tmp, s).expect("write facts");
                std::fs::rename(&tmp, &out).expect("rename facts");
            }
        }
        rustc_driver::Compilation::Continue
    }
}

fn main() {
    let mut args: Vec<String> = std::env::args().collect();
    // RUSTC_WORKSPACE_WRAPPER protocol: argv[1] is the path of the real rustc.
    if args.len() > 1 && (args[1].ends_with("rustc") || args[1].contains("/rustc")) {
        args.remove(1);
    }
    // Record the exact command line cargo used for the analysed crate, so that the self-test can
    // replay it on scratch copies (mutants) without going through cargo again.
    if let Ok(p) = std::env::var("FACTGEN_ARGS_OUT") {
        let want = std::env::var("FACTGEN_CRATE").unwrap_or_else(|_| "engine".to_string());
        let is_target = args.windows(2).any(|w| w[0] == "--crate-name" && w[1] == want);
        if is_target {
            let mut o = J::obj();
            let mut a = J::arr();
            for x in &args {
                a.push(J::s(x));
            }
            o.put("args", a);
            let mut e = J::obj();
            for (k, v) in std::env::vars() {
                if k.starts_with("CARGO_") || k == "OUT_DIR" {
                    e.put(&k, J::s(&v));
                }
            }
            o.put("env", e);
            o.put("cwd", J::s(&std::env::current_dir().map(|p| p.display().to_string()).unwrap_or_default()));
            let mut s = String::new();
            o.write(&mut s);
            let _ = std::fs::write(p, s);
        }
    }
    rustc_driver::run_compiler(&args, &mut Cb);
}

// ------------------------------------------------------------------------------------------

fn dump_crate<'tcx>(tcx: TyCtxt<'tcx>) -> J {
    let mut root = J::obj();
    root.put("config", J::s(&std::env::var("FACTGEN_CONFIG").unwrap_or_default()));
    root.put("nonce", J::s(&std::env::var("FACTGEN_NONCE").unwrap_or_default()));
    root.put("crate", J::s(&tcx.crate_name(rustc_hir::def_id::LOCAL_CRATE).to_string()));

    let mut adts = J::obj();
    let mut consts = J::obj();
    let mut statics = J::obj();
    let mut fns = J::obj();
    let mut impls = J::arr();

    for ldid in tcx.hir_crate_items(()).definitions() {
        let did = ldid.to_def_id();
        let kind = tcx.def_kind(did);
        match kind {
            DefKind::Struct | DefKind::Enum | DefKind::Union => {
                adts.put(&tcx.def_path_str(did), dump_adt(tcx, did));
            }
            DefKind::Const { .. } | DefKind::AssocConst { .. } => {
                if let Some(j) = dump_const(tcx, ldid) {
                    consts.put(&tcx.def_path_str(did), j);
                }
            }
            DefKind::Static { .. } => {
                let mut o = J::obj();
                let ty = tcx.type_of(did).instantiate_identity().skip_normalization();
                o.put("ty", J::s(&ty.to_string()));
                o.put("mutable", J::b(tcx.is_mutable_static(did)));
                put_span(tcx, &mut o, tcx.def_span(did));
                statics.put(&tcx.def_path_str(did), o);
            }
            DefKind::Impl { .. } => {
                let mut o = J::obj();
                let self_ty = tcx.type_of(did).instantiate_identity().skip_normalization();
                o.put("self_ty", J::s(&self_ty.to_string()));
                if let Some(tr) = tcx.impl_opt_trait_ref(did) {
                    let tr = tr.instantiate_identity().skip_normalization();
                    o.put("trait", J::s(&tcx.def_path_str(tr.def_id)));
                    o.put("trait_ref", J::s(&tr.to_string()));
                }
                let mut items = J::arr();
                for it in tcx.associated_item_def_ids(did) {
                    items.push(J::s(&tcx.def_path_str(*it)));
                }
                o.put("items", items);
                impls.push(o);
            }
            _ => {}
        }
    }

    for ldid in tcx.mir_keys(()).iter().copied() {
        let did = ldid.to_def_id();
        let kind = tcx.def_kind(did);
        let body: &Body<'tcx> = match kind {
            DefKind::Fn | DefKind::AssocFn | DefKind::Closure => tcx.optimized_mir(did),
            DefKind::Const { .. }
            | DefKind::AssocConst { .. }
            | DefKind::Static { .. }
            | DefKind::AnonConst
            | DefKind::InlineConst => tcx.mir_for_ctfe(did),
            DefKind::Ctor(..) => continue,
            _ => continue,
        };
        let key = body_key(tcx, did);
        fns.put(&key, dump_body(tcx, ldid, kind, body));
    }

    root.put("adts", adts);
    root.put("consts", consts);
    root.put("statics", statics);
    root.put("impls", impls);
    root.put("bodies", fns);
    root
}

fn body_key<'tcx>(tcx: TyCtxt<'tcx>, did: DefId) -> String {
    tcx.def_path_str(did)
}

fn put_span<'tcx>(tcx: TyCtxt<'tcx>, o: &mut J, span: Span) {
    let sm = tcx.sess.source_map();
    // Use the call-site span for expanded code so that the line is in the user's source.
    let root = span.source_callsite();
    let lo = sm.lookup_char_pos(root.lo());
    let hi = sm.lookup_char_pos(root.hi());
    o.put("file", J::s(&format!("{}", lo.file.name.prefer_local_unconditionally())));
    o.put("line", J::i(lo.line as i128));
    o.put("line_hi", J::i(hi.line as i128));
}

fn span_info<'tcx>(tcx: TyCtxt<'tcx>, o: &mut J, span: Span) {
    let sm = tcx.sess.source_map();
    let root = span.source_callsite();
    let lo = sm.lookup_char_pos(root.lo());
    o.put("line", J::i(lo.line as i128));
    if span.from_expansion() {
        let mut names = J::arr();
        for ed in span.macro_backtrace() {
            names.push(J::s(&format!("{}", ed.kind.descr())));
        }
        o.put("exp", names);
    }
}

fn dump_adt<'tcx>(tcx: TyCtxt<'tcx>, did: DefId) -> J {
    let adt = tcx.adt_def(did);
    let mut o = J::obj();
    o.put(
        "kind",
        J::s(if adt.is_enum() {
            "enum"
        } else if adt.is_union() {
            "union"
        } else {
            "struct"
        }),
    );
    put_span(tcx, &mut o, tcx.def_span(did));
    let mut vs = J::arr();
    for (vidx, v) in adt.variants().iter_enumerated() {
        let mut vo = J::obj();
        vo.put("name", J::s(v.name.as_str()));
        if adt.is_enum() {
            let d = adt.discriminant_for_variant(tcx, vidx);
            // sign-extend according to the discriminant type
            let size = rustc_abi::Integer::from_attr(&tcx, adt.repr().discr_type()).size();
            let val = if adt.repr().discr_type().is_signed() {
                size.sign_extend(d.val) as i128
            } else {
                d.val as i128
            };
            vo.put("discr", J::i(val));
        }
        let mut fs = J::arr();
        for f in v.fields.iter() {
            let mut fo = J::obj();
            fo.put("name", J::s(f.name.as_str()));
            let fty = tcx.type_of(f.did).instantiate_identity().skip_normalization();
            fo.put("ty", J::s(&fty.to_string()));
            fs.push(fo);
        }
        vo.put("fields", fs);
        vs.push(vo);
    }
    o.put("variants", vs);
    // Freeze-ness (no interior mutability) for non-generic ADTs
    let generics = tcx.generics_of(did);
    if generics.count() == 0 {
        let ty = tcx.type_of(did).instantiate_identity().skip_normalization();
        let env = TypingEnv::post_analysis(tcx, did);
        o.put("freeze", J::b(ty.is_freeze(tcx, env)));
        o.put("ty", J::s(&ty.to_string()));
    }
    o
}

fn dump_const<'tcx>(tcx: TyCtxt<'tcx>, ldid: LocalDefId) -> Option<J> {
    let did = ldid.to_def_id();
    let generics = tcx.generics_of(did);
    if generics.count() != 0 || generics.parent_count != 0 && tcx.generics_of(generics.parent.unwrap()).count() != 0 {
        // generic parent: skip evaluation, still record the type
        let mut o = J::obj();
        let ty = tcx.type_of(did).instantiate_identity().skip_normalization();
        o.put("ty", J::s(&ty.to_string()));
        o.put("generic", J::b(true));
        put_span(tcx, &mut o, tcx.def_span(did));
        return Some(o);
    }
    // trait-declared assoc consts without default have no body
    if let DefKind::AssocConst { .. } = tcx.def_kind(did) {
        if !tcx.is_mir_available(did) && tcx.hir_maybe_body_owned_by(ldid).is_none() {
            return None;
        }
    }
    let ty = tcx.type_of(did).instantiate_identity().skip_normalization();
    let mut o = J::obj();
    o.put("ty", J::s(&ty.to_string()));
    put_span(tcx, &mut o, tcx.def_span(did));
    match tcx.const_eval_poly(did) {
        Ok(val) => {
            put_const_value(tcx, &mut o, val, ty);
        }
        Err(_) => {
            o.put("error", J::b(true));
        }
    }
    Some(o)
}

fn put_const_value<'tcx>(tcx: TyCtxt<'tcx>, o: &mut J, val: ConstValue, ty: Ty<'tcx>) {
    match val {
        ConstValue::Scalar(interpret::Scalar::Int(si)) => {
            put_scalar_int(o, si, ty);
        }
        ConstValue::Scalar(interpret::Scalar::Ptr(ptr, _)) => {
            o.put("ptr", J::b(true));
            let (prov, off) = ptr.into_raw_parts();
            o.put("ptr_off", J::i(off.bytes() as i128));
            match tcx.global_alloc(prov.alloc_id()) {
                interpret::GlobalAlloc::Static(did) => {
                    o.put("static", J::s(&tcx.def_path_str(did)));
                }
                interpret::GlobalAlloc::Function { instance } => {
                    o.put("fnptr", J::s(&tcx.def_path_str(instance.def_id())));
                }
                interpret::GlobalAlloc::Memory(_) => {
                    o.put("mem", J::b(true));
                }
                _ => {}
            }
        }
        ConstValue::ZeroSized => {
            o.put("zst", J::b(true));
        }
        ConstValue::Slice { alloc_id, meta } => {
            let alloc = tcx.global_alloc(alloc_id).unwrap_memory();
            let a = alloc.inner();
            let len = (meta as usize).min(a.len());
            let bytes = a.inspect_with_uninit_and_ptr_outside_interpreter(0..len);
            if ty.peel_refs().is_str() {
                o.put("str", J::s(&String::from_utf8_lossy(bytes)));
            } else {
                o.put("bytes", J::s(&hex(bytes)));
            }
        }
        ConstValue::Indirect { alloc_id, offset } => {
            let alloc = tcx.global_alloc(alloc_id).unwrap_memory();
            let a = alloc.inner();
            let start = offset.bytes() as usize;
            let env = TypingEnv::fully_monomorphized();
            let size = tcx
                .layout_of(env.as_query_input(ty))
                .map(|l| l.size.bytes() as usize)
                .unwrap_or(a.len() - start);
            let end = (start + size).min(a.len());
            let bytes = a.inspect_with_uninit_and_ptr_outside_interpreter(start..end);
            if bytes.len() <= (4 << 20) {
                o.put("bytes", J::s(&hex(bytes)));
            }
            o.put("size", J::i(size as i128));
            o.put("has_ptrs", J::b(!a.provenance().ptrs().is_empty()));
        }
    }
}

fn put_scalar_int<'tcx>(o: &mut J, si: ty::ScalarInt, ty: Ty<'tcx>) {
    let size = si.size();
    let bits = si.to_bits(size);
    match ty.kind() {
        ty::Int(_) => o.put("int", J::i(size.sign_extend(bits) as i128)),
        ty::Uint(_) => o.put("int", J::u(bits)),
        ty::Bool => o.put("int", J::i(bits as i128)),
        ty::Char => o.put("int", J::i(bits as i128)),
        ty::Float(ty::FloatTy::F32) => {
            o.put("float", J::f(f32::from_bits(bits as u32) as f64));
            o.put("bits", J::u(bits))
        }
        ty::Float(ty::FloatTy::F64) => {
            o.put("float", J::f(f64::from_bits(bits as u64)));
            o.put("bits", J::u(bits))
        }
        _ => {
            o.put("bits", J::u(bits));
            o.put("size", J::i(size.bytes() as i128));
        }
    }
}

fn hex(b: &[u8]) -> String {
    const H: &[u8; 16] = b"0123456789abcdef";
    let mut s = String::with_capacity(b.len() * 2);
    for x in b {
        s.push(H[(x >> 4) as usize] as char);
        s.push(H[(x & 15) as usize] as char);
    }
    s
}

// ------------------------------------------------------------------------------------------

struct Cx<'a, 'tcx> {
    tcx: TyCtxt<'tcx>,
    body: &'a Body<'tcx>,
    env: TypingEnv<'tcx>,
}

fn dump_body<'tcx>(tcx: TyCtxt<'tcx>, ldid: LocalDefId, kind: DefKind, body: &Body<'tcx>) -> J {
    let did = ldid.to_def_id();
    let cx = Cx { tcx, body, env: TypingEnv::post_analysis(tcx, did) };
    let mut o = J::obj();
    o.put("kind", J::s(&format!("{kind:?}")));
    put_span(tcx, &mut o, body.span);
    o.put("from_expansion", J::b(tcx.def_span(did).from_expansion()));
    // parent: enclosing fn for closures / nested items
    let parent = tcx.local_parent(ldid).to_def_id();
    o.put("parent", J::s(&tcx.def_path_str(parent)));
    o.put("parent_kind", J::s(&format!("{:?}", tcx.def_kind(parent))));
    if matches!(kind, DefKind::Fn | DefKind::AssocFn) {
        o.put("vis_pub", J::b(tcx.visibility(did).is_public()));
        o.put("unsafe", J::b(tcx.fn_sig(did).skip_binder().safety().is_unsafe()));
    }
    o.put("arg_count", J::i(body.arg_count as i128));

    // locals
    let mut names: Vec<Option<String>> = vec![None; body.local_decls.len()];
    let mut dbg = J::arr();
    for vdi in &body.var_debug_info {
        let mut d = J::obj();
        d.put("name", J::s(vdi.name.as_str()));
        match &vdi.value {
            VarDebugInfoContents::Place(p) => {
                if p.projection.is_empty() {
                    if names[p.local.as_usize()].is_none() {
                        names[p.local.as_usize()] = Some(vdi.name.to_string());
                    }
                }
                d.put("place", cx.place(p));
            }
            VarDebugInfoContents::Const(c) => {
                d.put("const", cx.constant(c));
            }
        }
        if let Some(a) = vdi.argument_index {
            d.put("arg", J::i(a as i128));
        }
        dbg.push(d);
    }
    o.put("debug", dbg);
    let mut locals = J::arr();
    for (l, decl) in body.local_decls.iter_enumerated() {
        let mut lo = J::obj();
        lo.put("ty", J::s(&decl.ty.to_string()));
        if let Some(n) = &names[l.as_usize()] {
            lo.put("name", J::s(n));
        }
        if decl.mutability.is_mut() {
            lo.put("mut", J::b(true));
        }
        locals.push(lo);
    }
    o.put("locals", locals);

    let mut blocks = J::arr();
    for (_bb, data) in body.basic_blocks.iter_enumerated() {
        let mut b = J::obj();
        if data.is_cleanup {
            b.put("cleanup", J::b(true));
        }
        let mut stmts = J::arr();
        for st in &data.statements {
            if let Some(js) = cx.stmt(st) {
                stmts.push(js);
            }
        }
        b.put("stmts", stmts);
        b.put("term", cx.term(data.terminator()));
        blocks.push(b);
    }
    o.put("blocks", blocks);
    o
}

impl<'a, 'tcx> Cx<'a, 'tcx> {
    fn ty_of_place_prefix(&self, local: Local, proj: &[PlaceElem<'tcx>]) -> mir::PlaceTy<'tcx> {
        let mut pty = mir::PlaceTy::from_ty(self.body.local_decls[local].ty);
        for e in proj {
            pty = pty.projection_ty(self.tcx, *e);
        }
        pty
    }

    fn place(&self, p: &Place<'tcx>) -> J {
        let mut o = J::obj();
        o.put("l", J::i(p.local.as_usize() as i128));
        let mut text = format!("_{}", p.local.as_usize());
        let mut projs = J::arr();
        for (i, e) in p.projection.iter().enumerate() {
            let base = self.ty_of_place_prefix(p.local, &p.projection[..i]);
            match e {
                ProjectionElem::Deref => {
                    projs.push(J::s("*"));
                    text = format!("(*{text})");
                }
                ProjectionElem::Field(f, fty) => {
                    let mut fo = J::obj();
                    fo.put("f", J::i(f.as_usize() as i128));
                    let mut fname = format!("{}", f.as_usize());
                    match base.ty.kind() {
                        ty::Adt(adt, _) => {
                            let v = match base.variant_index {
                                Some(v) => v,
                                None => rustc_abi::FIRST_VARIANT,
                            };
                            if !adt.is_enum() || base.variant_index.is_some() {
                                let vd = adt.variant(v);
                                if let Some(fd) = vd.fields.get(f) {
                                    fname = fd.name.to_string();
                                }
                            }
                            fo.put("adt", J::s(&self.tcx.def_path_str(adt.did())));
                        }
                        ty::Closure(d, _) => {
                            fo.put("closure", J::s(&self.tcx.def_path_str(*d)));
                        }
                        ty::Tuple(_) => {
                            fo.put("tuple", J::b(true));
                        }
                        _ => {}
                    }
                    fo.put("n", J::s(&fname));
                    fo.put("ty", J::s(&fty.to_string()));
                    projs.push(fo);
                    text = format!("{text}.{fname}");
                }
                ProjectionElem::Index(l) => {
                    let mut io = J::obj();
                    io.put("idx", J::i(l.as_usize() as i128));
                    projs.push(io);
                    text = format!("{text}[_{}]", l.as_usize());
                }
                ProjectionElem::ConstantIndex { offset, from_end, .. } => {
                    let mut io = J::obj();
                    io.put("cidx", J::i(offset as i128));
                    io.put("from_end", J::b(from_end));
                    projs.push(io);
                    text = format!("{text}[{}{offset}]", if from_end { "-" } else { "" });
                }
                ProjectionElem::Subslice { from, to, .. } => {
                    let mut io = J::obj();
                    io.put("sub", J::s(&format!("{from}..{to}")));
                    projs.push(io);
                    text = format!("{text}[{from}..{to}]");
                }
                ProjectionElem::Downcast(name, vidx) => {
                    let mut io = J::obj();
                    let n = name.map(|s| s.to_string()).unwrap_or_else(|| format!("{}", vidx.as_usize()));
                    io.put("variant", J::s(&n));
                    projs.push(io);
                    text = format!("({text} as {n})");
                }
                ProjectionElem::OpaqueCast(_) => {
                    projs.push(J::s("opaque"));
                }
                ProjectionElem::UnwrapUnsafeBinder(_) => {
                    projs.push(J::s("unwrap_binder"));
                }
            }
        }
        o.put("p", projs);
        o.put("t", J::s(&text));
        o
    }

    fn constant(&self, c: &ConstOperand<'tcx>) -> J {
        let mut o = J::obj();
        o.put("k", J::s("const"));
        let ty = c.const_.ty();
        o.put("ty", J::s(&ty.to_string()));
        match ty.kind() {
            ty::FnDef(did, args) => {
                self.put_callee(&mut o, *did, args);
            }
            ty::Closure(did, _) => {
                o.put("closure", J::s(&self.tcx.def_path_str(*did)));
            }
            _ => {
                // try evaluating
                match c.const_ {
                    Const::Val(v, t) => {
                        put_const_value(self.tcx, &mut o, v, t);
                    }
                    Const::Unevaluated(uv, t) => {
                        o.put("uneval", J::s(&self.tcx.def_path_str(uv.def)));
                        if uv.promoted.is_some() {
                            o.put("promoted", J::i(uv.promoted.unwrap().as_usize() as i128));
                        }
                        if uv.promoted.is_none() && uv.args.is_empty() {
                            if let Ok(v) = self.tcx.const_eval_poly(uv.def) {
                                put_const_value(self.tcx, &mut o, v, t);
                            }
                        } else if uv.promoted.is_some() {
                            if let Ok(v) = c.const_.eval(self.tcx, self.env, rustc_span::DUMMY_SP) {
                                self.put_promoted(&mut o, v, t);
                            }
                        }
                    }
                    Const::Ty(_, ct) => {
                        o.put("tyconst", J::s(&ct.to_string()));
                        if let Some(interpret::Scalar::Int(si)) = ct.try_to_scalar() {
                            put_scalar_int(&mut o, si, ty);
                        }
                    }
                }
            }
        }
        o
    }

    /// A promoted constant (typically `&CONST_EXPR`): emit the pointee bytes and, for fieldless enums,
    /// the variant name.
    fn put_promoted(&self, o: &mut J, v: ConstValue, t: Ty<'tcx>) {
        let tcx = self.tcx;
        if let ConstValue::Scalar(interpret::Scalar::Ptr(ptr, _)) = v {
            let (prov, off) = ptr.into_raw_parts();
            if let interpret::GlobalAlloc::Memory(alloc) = tcx.global_alloc(prov.alloc_id()) {
                let a = alloc.inner();
                let start = off.bytes() as usize;
                if let Some(pointee) = t.builtin_deref(true) {
                    o.put("pointee_ty", J::s(&pointee.to_string()));
                    if let Ok(layout) = tcx.layout_of(self.env.as_query_input(pointee)) {
                        let size = layout.size.bytes() as usize;
                        let end = (start + size).min(a.len());
                        let bytes = a.inspect_with_uninit_and_ptr_outside_interpreter(start..end);
                        if bytes.len() <= 4096 {
                            o.put("deref_bytes", J::s(&hex(bytes)));
                        }
                        if let ty::Adt(adt, _) = pointee.kind() {
                            if adt.is_enum() && adt.variants().iter().all(|v| v.fields.is_empty()) && size <= 8 && bytes.len() == size {
                                let mut val: u128 = 0;
                                for (i, b) in bytes.iter().enumerate() {
                                    val |= (*b as u128) << (8 * i);
                                }
                                for (vidx, vd) in adt.variants().iter_enumerated() {
                                    if adt.discriminant_for_variant(tcx, vidx).val == val {
                                        o.put("enum_variant", J::s(vd.name.as_str()));
                                        o.put("enum_adt", J::s(&tcx.def_path_str(adt.did())));
                                    }
                                }
                            }
                        }
                    }
                }
            }
        } else {
            put_const_value(tcx, o, v, t);
        }
    }

    fn put_callee(&self, o: &mut J, did: DefId, args: ty::GenericArgsRef<'tcx>) {
        let tcx = self.tcx;
        o.put("fn", J::s(&tcx.def_path_str(did)));
        o.put("fn_full", J::s(&tcx.def_path_str_with_args(did, args)));
        o.put("local", J::b(did.is_local()));
        let mut ga = J::arr();
        for a in args.iter() {
            ga.push(J::s(&a.to_string()));
        }
        o.put("gargs", ga);
        // Resolve trait methods to their impl
        match Instance::try_resolve(tcx, self.env, did, args) {
            Ok(Some(inst)) => {
                let rd = inst.def_id();
                o.put("res", J::s(&tcx.def_path_str(rd)));
                o.put("res_local", J::b(rd.is_local()));
                o.put("res_kind", J::s(instance_kind(&inst)));
            }
            _ => {
                o.put("unresolved", J::b(true));
            }
        }
        if let Some(tr) = tcx.trait_of_assoc(did) {
            o.put("trait", J::s(&tcx.def_path_str(tr)));
        }
    }

    fn operand(&self, op: &Operand<'tcx>) -> J {
        match op {
            Operand::Copy(p) => {
                let mut o = J::obj();
                o.put("k", J::s("copy"));
                o.put("pl", self.place(p));
                o
            }
            Operand::Move(p) => {
                let mut o = J::obj();
                o.put("k", J::s("move"));
                o.put("pl", self.place(p));
                o
            }
            Operand::Constant(c) => self.constant(c),
            #[allow(unreachable_patterns)]
            _ => {
                let mut o = J::obj();
                o.put("k", J::s("other"));
                o.put("text", J::s(&format!("{op:?}")));
                o
            }
        }
    }

    fn stmt(&self, st: &Statement<'tcx>) -> Option<J> {
        let mut o = J::obj();
        match &st.kind {
            StatementKind::Assign(b) => {
                let (lhs, rv) = &**b;
                o.put("k", J::s("assign"));
                o.put("lhs", self.place(lhs));
                o.put("rv", self.rvalue(rv));
            }
            StatementKind::SetDiscriminant { place, variant_index } => {
                o.put("k", J::s("setdiscr"));
                o.put("lhs", self.place(place));
                let pty = place.ty(&self.body.local_decls, self.tcx).ty;
                if let ty::Adt(adt, _) = pty.kind() {
                    o.put("variant", J::s(adt.variant(*variant_index).name.as_str()));
                }
            }
            StatementKind::Intrinsic(i) => {
                o.put("k", J::s("intrinsic"));
                o.put("text", J::s(&format!("{i:?}")));
            }
            _ => return None,
        }
        span_info(self.tcx, &mut o, st.source_info.span);
        Some(o)
    }

    fn rvalue(&self, rv: &Rvalue<'tcx>) -> J {
        let mut o = J::obj();
        let rty = rv.ty(&self.body.local_decls, self.tcx);
        o.put("ty", J::s(&rty.to_string()));
        match rv {
            Rvalue::Use(op, ..) => {
                o.put("k", J::s("use"));
                o.put("op", self.operand(op));
            }
            Rvalue::Repeat(op, n) => {
                o.put("k", J::s("repeat"));
                o.put("op", self.operand(op));
                o.put("n", J::s(&n.to_string()));
            }
            Rvalue::Ref(_, bk, p) => {
                o.put("k", J::s("ref"));
                o.put(
                    "mut",
                    J::b(matches!(bk, BorrowKind::Mut { .. })),
                );
                o.put("pl", self.place(p));
            }
            Rvalue::ThreadLocalRef(d) => {
                o.put("k", J::s("tlsref"));
                o.put("static", J::s(&self.tcx.def_path_str(*d)));
            }
            Rvalue::RawPtr(k, p) => {
                o.put("k", J::s("rawptr"));
                o.put("mut", J::b(format!("{k:?}").contains("Mut")));
                o.put("pl", self.place(p));
            }
            Rvalue::Cast(ck, op, ty) => {
                o.put("k", J::s("cast"));
                o.put("cast", J::s(&format!("{ck:?}")));
                o.put("op", self.operand(op));
                o.put("from", J::s(&op.ty(&self.body.local_decls, self.tcx).to_string()));
                o.put("to", J::s(&ty.to_string()));
            }
            Rvalue::BinaryOp(bop, b) => {
                let (a, c) = &**b;
                o.put("k", J::s("binop"));
                o.put("op", J::s(&format!("{bop:?}")));
                o.put("a", self.operand(a));
                o.put("b", self.operand(c));
                o.put("aty", J::s(&a.ty(&self.body.local_decls, self.tcx).to_string()));
            }
            Rvalue::UnaryOp(uop, a) => {
                o.put("k", J::s("unop"));
                o.put("op", J::s(&format!("{uop:?}")));
                o.put("a", self.operand(a));
                o.put("aty", J::s(&a.ty(&self.body.local_decls, self.tcx).to_string()));
            }
            Rvalue::Discriminant(p) => {
                o.put("k", J::s("discr"));
                o.put("pl", self.place(p));
                let pty = p.ty(&self.body.local_decls, self.tcx).ty;
                o.put("of", J::s(&pty.to_string()));
            }
            Rvalue::Aggregate(ak, ops) => {
                o.put("k", J::s("agg"));
                match &**ak {
                    AggregateKind::Array(t) => {
                        o.put("agg", J::s("array"));
                        o.put("elem", J::s(&t.to_string()));
                    }
                    AggregateKind::Tuple => {
                        o.put("agg", J::s("tuple"));
                    }
                    AggregateKind::Adt(did, vidx, _, _, active) => {
                        o.put("agg", J::s("adt"));
                        let adt = self.tcx.adt_def(*did);
                        o.put("adt", J::s(&self.tcx.def_path_str(*did)));
                        let v = adt.variant(*vidx);
                        o.put("variant", J::s(v.name.as_str()));
                        let mut fns = J::arr();
                        if let Some(a) = active {
                            fns.push(J::s(v.fields[*a].name.as_str()));
                        } else {
                            for f in v.fields.iter() {
                                fns.push(J::s(f.name.as_str()));
                            }
                        }
                        o.put("fields", fns);
                    }
                    AggregateKind::Closure(did, _) => {
                        o.put("agg", J::s("closure"));
                        o.put("closure", J::s(&self.tcx.def_path_str(*did)));
                    }
                    other => {
                        o.put("agg", J::s(&format!("{other:?}")));
                    }
                }
                let mut os = J::arr();
                for op in ops.iter() {
                    os.push(self.operand(op));
                }
                o.put("ops", os);
            }
            Rvalue::CopyForDeref(p) => {
                o.put("k", J::s("use"));
                let mut oo = J::obj();
                oo.put("k", J::s("copy"));
                oo.put("pl", self.place(p));
                o.put("op", oo);
            }
            other => {
                o.put("k", J::s("other"));
                o.put("text", J::s(&format!("{other:?}")));
            }
        }
        o
    }

    fn term(&self, t: &Terminator<'tcx>) -> J {
        let mut o = J::obj();
        span_info(self.tcx, &mut o, t.source_info.span);
        match &t.kind {
            TerminatorKind::Goto { target } => {
                o.put("k", J::s("goto"));
                o.put("target", J::i(target.as_usize() as i128));
            }
            TerminatorKind::SwitchInt { discr, targets } => {
                o.put("k", J::s("switch"));
                o.put("discr", self.operand(discr));
                let dty = discr.ty(&self.body.local_decls, self.tcx);
                o.put("dty", J::s(&dty.to_string()));
                let mut ts = J::arr();
                for (v, bb) in targets.iter() {
                    let mut p = J::arr();
                    // sign-extend for signed ints
                    let val = match dty.kind() {
                        ty::Int(it) => {
                            let bits = it.bit_width().unwrap_or(64) as u64;
                            rustc_abi::Size::from_bits(bits).sign_extend(v) as i128
                        }
                        _ => v as i128,
                    };
                    p.push(J::i(val));
                    p.push(J::i(bb.as_usize() as i128));
                    ts.push(p);
                }
                o.put("targets", ts);
                o.put("otherwise", J::i(targets.otherwise().as_usize() as i128));
            }
            TerminatorKind::UnwindResume => o.put("k", J::s("resume")),
            TerminatorKind::UnwindTerminate(_) => o.put("k", J::s("terminate")),
            TerminatorKind::Return => o.put("k", J::s("return")),
            TerminatorKind::Unreachable => o.put("k", J::s("unreachable")),
            TerminatorKind::Drop { place, target, unwind, .. } => {
                o.put("k", J::s("drop"));
                o.put("pl", self.place(place));
                o.put("target", J::i(target.as_usize() as i128));
                self.put_unwind(&mut o, unwind);
                let pty = place.ty(&self.body.local_decls, self.tcx).ty;
                o.put("ty", J::s(&pty.to_string()));
            }
            TerminatorKind::Call { func, args, destination, target, unwind, .. } => {
                o.put("k", J::s("call"));
                o.put("func", self.operand(func));
                let mut a = J::arr();
                for x in args.iter() {
                    a.push(self.operand(&x.node));
                }
                o.put("args", a);
                o.put("dest", self.place(destination));
                if let Some(t) = target {
                    o.put("target", J::i(t.as_usize() as i128));
                }
                self.put_unwind(&mut o, unwind);
            }
            TerminatorKind::TailCall { func, args, .. } => {
                o.put("k", J::s("tailcall"));
                o.put("func", self.operand(func));
                let mut a = J::arr();
                for x in args.iter() {
                    a.push(self.operand(&x.node));
                }
                o.put("args", a);
            }
            TerminatorKind::Assert { cond, expected, msg, target, unwind } => {
                o.put("k", J::s("assert"));
                o.put("cond", self.operand(cond));
                o.put("expected", J::b(*expected));
                let (kind, ops): (&str, Vec<&Operand<'tcx>>) = match &**msg {
                    AssertKind::BoundsCheck { len, index } => ("BoundsCheck", vec![len, index]),
                    AssertKind::Overflow(op, a, b) => {
                        o.put("binop", J::s(&format!("{op:?}")));
                        ("Overflow", vec![a, b])
                    }
                    AssertKind::OverflowNeg(a) => ("OverflowNeg", vec![a]),
                    AssertKind::DivisionByZero(a) => ("DivisionByZero", vec![a]),
                    AssertKind::RemainderByZero(a) => ("RemainderByZero", vec![a]),
                    AssertKind::MisalignedPointerDereference { .. } => ("Misaligned", vec![]),
                    AssertKind::NullPointerDereference => ("NullDeref", vec![]),
                    AssertKind::InvalidEnumConstruction(a) => ("InvalidEnum", vec![a]),
                    _ => ("Other", vec![]),
                };
                o.put("msg", J::s(kind));
                let mut os = J::arr();
                for x in ops {
                    os.push(self.operand(x));
                }
                o.put("ops", os);
                o.put("target", J::i(target.as_usize() as i128));
                self.put_unwind(&mut o, unwind);
            }
            TerminatorKind::FalseEdge { real_target, .. } => {
                o.put("k", J::s("goto"));
                o.put("target", J::i(real_target.as_usize() as i128));
            }
            TerminatorKind::FalseUnwind { real_target, .. } => {
                o.put("k", J::s("goto"));
                o.put("target", J::i(real_target.as_usize() as i128));
            }
            other => {
                o.put("k", J::s("other"));
                o.put("text", J::s(&format!("{other:?}")));
            }
        }
        o
    }

    fn put_unwind(&self, o: &mut J, u: &UnwindAction) {
        match u {
            UnwindAction::Cleanup(bb) => o.put("unwind", J::i(bb.as_usize() as i128)),
            UnwindAction::Continue => o.put("unwind_k", J::s("continue")),
            UnwindAction::Unreachable => o.put("unwind_k", J::s("unreachable")),
            UnwindAction::Terminate(_) => o.put("unwind_k", J::s("terminate")),
        }
    }
}

fn instance_kind(inst: &Instance<'_>) -> &'static str {
    use ty::InstanceKind::*;
    match inst.def {
        Item(_) => "item",
        Intrinsic(_) => "intrinsic",
        VTableShim(_) => "vtable_shim",
        ReifyShim(..) => "reify_shim",
        FnPtrShim(..) => "fnptr_shim",
        Virtual(..) => "virtual",
        ClosureOnceShim { .. } => "closure_once_shim",
        DropGlue(..) => "drop_glue",
        CloneShim(..) => "clone_shim",
        _ => "other",
    }
}
