#!/bin/bash
# Build the fact generator and pre-compile /repo's dependencies for the analysed configuration(s).
# Offline; everything lands under /verif/.cache (git-ignored).
set -e
cd "$(dirname "$0")"
export CARGO_NET_OFFLINE=true
mkdir -p .cache/facts evidence/replay
python3 - <<'PY'
import sys
sys.path.insert(0, "engine/rules")
import core
core.ensure_driver()
p, h, cached = core.gen_facts("default")
print("setup: driver built; default-config facts at", p)
PY
