#!/usr/bin/env python3
"""usage: tools/try_edits.py <edits.py>   where edits.py defines EDITS = [{"name":.., "edits":[(rel, old, new), ..]}, ..]
Applies each edit set to a scratch copy of /repo/src (removed afterwards), produces facts by replaying the recorded rustc
command line, runs every claimed property's rules (quick) and prints which keys fire. For exploring what the rules see."""
import concurrent.futures as cf, importlib, json, os, shutil, sys, tempfile, runpy
HERE = os.path.dirname(os.path.dirname(os.path.abspath(__file__)))
sys.path.insert(0, os.path.join(HERE, "engine", "rules"))
import core, facts as F, selftest
PROPS = [c["property_id"] for c in json.load(open(os.path.join(HERE, "MANIFEST.json")))["checks"]]

def one(m):
    core.QUIET = True
    tmp = tempfile.mkdtemp(prefix="verif-try-")
    try:
        shutil.copytree(os.path.join(core.REPO, "src"), os.path.join(tmp, "src"))
        err = selftest._apply(tmp, m["edits"])
        if err:
            return m["name"], {"error": err}
        try:
            fp = core.gen_facts_direct(tmp)
        except core.AnalysisError as e:
            return m["name"], {"error": "does not compile: " + str(e)[-400:]}
        fx = F.Facts(fp)
        out = {}
        for p in PROPS:
            mod = importlib.import_module("p" + p)
            rep = core.Report(p, "quick")
            try:
                mod.run(fx, rep, "quick")
            except F.MissingAnchor as e:
                rep.violation("analysis", "analysis-could-not-be-performed", str(e), {})
            except Exception as e:
                rep.violation("analysis", "analysis-crashed", repr(e), {})
            if rep.violations:
                out[p] = [v["key"] for v in rep.violations][:4]
        return m["name"], out
    finally:
        shutil.rmtree(tmp, ignore_errors=True)

if __name__ == "__main__":
    edits = runpy.run_path(sys.argv[1])["EDITS"]
    core.gen_facts("default", core.REPO)
    with cf.ProcessPoolExecutor(max_workers=8) as ex:
        for name, res in ex.map(one, edits):
            print(f"{name}: {res if res else 'SILENT'}")
