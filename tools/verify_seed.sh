#!/bin/bash
# usage: tools/verify_seed.sh <worktree> <outdir>
# Confirms a seeded change: applies patch.diff to a clean worktree, builds, runs the unedited test suite (must pass),
# runs the demonstration (must FAIL with the change, PASS without it). Prints a JSON summary line.
WT=$1; OUT=$2
cd "$WT" || exit 2
git checkout -q -- . ; git clean -fdq -- src
git apply "$OUT/patch.diff" || { echo '{"error":"patch does not apply"}'; exit 1; }
cargo build --offline 2>&1 | tail -1 | grep -q Finished || { echo '{"error":"build failed"}'; exit 1; }
SUITE=$(cargo test --workspace --no-fail-fast --offline 2>&1 | grep -E '^test result' | head -1)
run_demo() {
  if [ -f "$OUT/demo.sh" ]; then
    (cd "$WT" && bash "$OUT/demo.sh" >/tmp/demo.$$.log 2>&1); echo $?
  else
    git apply "$OUT/demo.diff" || { echo "applyfail"; return; }
    R=$(cargo test --workspace --no-fail-fast --offline 2>&1 | grep -E '^test result' | head -1)
    git apply -R "$OUT/demo.diff"
    git clean -fdq -- src
    echo "$R" | grep -q ' 0 failed' && echo 0 || echo 1
  fi
}
WITH=$(run_demo)
git apply -R "$OUT/patch.diff"
cargo build --offline 2>&1 | tail -1 >/dev/null
WITHOUT=$(run_demo)
git checkout -q -- . ; git clean -fdq -- src
echo "{\"suite_with_change\": \"$SUITE\", \"demo_exit_with_change\": \"$WITH\", \"demo_exit_without_change\": \"$WITHOUT\"}"
