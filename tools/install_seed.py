#!/usr/bin/env python3
"""usage: tools/install_seed.py <ID e.g. C03-2> <what_breaks> <needs> [worktree-id]
Confirms the sub-agent's change in its scratch worktree /tmp/seedwork/<ID> with tools/verify_seed.sh (build, unedited
suite passes, demonstration fails with / passes without) and, only if confirmed, copies it to /verif/seeded/<ID>/
with a meta.json. demo.diff is preferred over demo.sh when both exist (deterministic)."""
import json, os, shutil, subprocess, sys, tempfile
HERE = os.path.dirname(os.path.dirname(os.path.abspath(__file__)))
sid, what, needs = sys.argv[1:4]
wt, out = f"/tmp/seedwork/{sys.argv[4] if len(sys.argv) > 4 else sid}", f"/tmp/seedwork/out/{sid}"
vdir = out
if os.path.exists(f"{out}/demo.diff") and os.path.exists(f"{out}/demo.sh"):
    vdir = tempfile.mkdtemp(prefix="vseed-", dir="/tmp/seedwork")
    for f in ("patch.diff", "demo.diff"):
        shutil.copy(f"{out}/{f}", vdir)
r = subprocess.run(["bash", f"{HERE}/tools/verify_seed.sh", wt, vdir], capture_output=True, text=True)
if vdir != out:
    shutil.rmtree(vdir)
line = [l for l in r.stdout.splitlines() if l.startswith("{")]
conf = json.loads(line[-1]) if line else {"error": r.stdout[-300:] + r.stderr[-300:]}
print(sid, conf)
ok = "181 passed; 0 failed" in conf.get("suite_with_change", "") and conf.get("demo_exit_with_change") == "1" and conf.get("demo_exit_without_change") == "0"
if not ok:
    print(sid, "NOT CONFIRMED - not installed")
    sys.exit(1)
d = f"{HERE}/seeded/{sid}"
os.makedirs(d, exist_ok=True)
for f in ("patch.diff", "demo.sh", "demo.diff", "notes.md"):
    if os.path.exists(f"{out}/{f}"):
        shutil.copy(f"{out}/{f}", d)
json.dump({"property": sid.split("-")[0], "what_breaks": what, "needs": needs, "confirmed": conf,
           "produced_by": "independent sub-agent given only the property text (plus a one-line description of the earlier seed to avoid) and a scratch worktree",
           "ran": f"tools/verify_seed.sh {wt} {out}"}, open(f"{d}/meta.json", "w"), indent=1)
print(sid, "installed")
