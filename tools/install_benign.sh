#!/bin/bash
# usage: tools/install_benign.sh <R-id>   confirms the refactor diffs of /tmp/seedwork/out/<R-id> in the scratch worktree
# /tmp/seedwork/<R-id> (each applies alone to a clean checkout and builds; all applied together pass the unedited suite; if they
# do not apply together they are tested one by one) and installs them as /verif/benign/<R-id>-rNN/.
R=$1; WT=/tmp/seedwork/$R; OUT=/tmp/seedwork/out/$R; HERE=$(cd "$(dirname "$0")/.." && pwd)
cd $WT || exit 2
git checkout -q -- .; git clean -fdq -- src
OKS=""
for f in $OUT/r*.diff; do
  n=$(basename $f .diff)
  git checkout -q -- .; git clean -fdq -- src
  if git apply $f 2>/dev/null && cargo build --offline 2>&1 | tail -1 | grep -q Finished; then OKS="$OKS $n"; else echo "$R-$n: does not apply/build alone - dropped"; fi
done
git checkout -q -- .; git clean -fdq -- src
TOGETHER=1
for n in $OKS; do git apply $OUT/$n.diff 2>/dev/null || { TOGETHER=0; break; }; done
if [ $TOGETHER = 1 ]; then
  S=$(cargo test --workspace --no-fail-fast --offline 2>&1 | grep -E '^test result' | head -1)
  echo "all together: $S"
  echo "$S" | grep -q '181 passed; 0 failed' || TOGETHER=0
fi
git checkout -q -- .; git clean -fdq -- src
GOOD=""
if [ $TOGETHER = 1 ]; then GOOD="$OKS"; else
  for n in $OKS; do
    git apply $OUT/$n.diff; S=$(cargo test --workspace --no-fail-fast --offline 2>&1 | grep -E '^test result' | head -1)
    git checkout -q -- .; git clean -fdq -- src
    if echo "$S" | grep -q '181 passed; 0 failed'; then GOOD="$GOOD $n"; else echo "$R-$n: suite fails ($S) - dropped"; fi
  done
fi
for n in $GOOD; do
  d=$HERE/benign/$R-$n; mkdir -p $d; cp $OUT/$n.diff $d/patch.diff
  echo '{"benign": true, "property": "-", "source": "independent sub-agent asked for behaviour-preserving refactors; applies and builds alone; 181 tests pass"}' > $d/meta.json
done
cp $OUT/notes.md $HERE/benign/$R-notes.md 2>/dev/null
echo "installed:$GOOD"
