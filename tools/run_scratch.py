#!/usr/bin/env python3
"""Same verdicts as tools/run_seeded.py without touching /repo's working tree, several changes at a time:
every /verif/{seeded,benign}/<id>/patch.diff is applied to a scratch copy of /repo's HEAD `src` (under $TMPDIR, removed at once),
facts are produced by replaying the recorded rustc command line through the driver (as the self-test does) and the quick rules of
every claimed property (seeded: of the target property unless --all-props) are run on them in-process.
usage: tools/run_scratch.py seeded|benign [--all-props] [--jobs N] [id ...]     writes <dir>/RESULTS.json when no ids are given"""
import concurrent.futures as cf
import importlib
import json
import os
import shutil
import subprocess
import sys
import tempfile

HERE = os.path.dirname(os.path.dirname(os.path.abspath(__file__)))
sys.path.insert(0, os.path.join(HERE, "engine", "rules"))
import core  # noqa: E402
import facts as F  # noqa: E402

PROPS = [c["property_id"] for c in json.load(open(os.path.join(HERE, "MANIFEST.json")))["checks"]]


def one(job):
    kind, i, all_props = job
    core.QUIET = True
    tmp = tempfile.mkdtemp(prefix="verif-sr-")
    try:
        subprocess.run(f"git -C /repo archive HEAD src | tar -x -C {tmp}", shell=True, check=True)
        r = subprocess.run(["patch", "-p1", "-s", "-d", tmp, "-i", os.path.join(HERE, kind, i, "patch.diff")], capture_output=True, text=True)
        if r.returncode != 0:
            return i, {"error": "patch does not apply"}
        try:
            fp = core.gen_facts_direct(tmp)
        except core.AnalysisError as e:
            return i, {"error": "does not compile: " + str(e)[-200:]}
        fx = F.Facts(fp)
        out = {}
        target = i.split("-")[0]
        for p in (PROPS if (kind == "benign" or all_props) else [target]):
            m = importlib.import_module("p" + p)
            rep = core.Report(p, "quick")
            try:
                m.run(fx, rep, "quick")
            except F.MissingAnchor as e:
                rep.violation("analysis", "analysis-could-not-be-performed", str(e), {})
            except Exception as e:  # a crash of a rule is an alarm too
                rep.violation("analysis", "analysis-crashed", repr(e), {})
            if rep.violations:
                out[p] = [v["key"] for v in rep.violations]
        try:
            os.remove(fp)
        except OSError:
            pass
        return i, {"target": target, "caught_by": out} if kind == "seeded" else {"caught_by": out}
    finally:
        shutil.rmtree(tmp, ignore_errors=True)


def main():
    argv = sys.argv[1:]
    kind = argv.pop(0)
    jobs = 6
    if "--jobs" in argv:
        k = argv.index("--jobs")
        jobs = int(argv[k + 1])
        del argv[k:k + 2]
    all_props = "--all-props" in argv
    ids = [a for a in argv if not a.startswith("--")]
    sd = os.path.join(HERE, kind)
    todo = ids or sorted(d for d in os.listdir(sd) if os.path.isfile(os.path.join(sd, d, "patch.diff")))
    results = {}
    bad = 0
    with cf.ProcessPoolExecutor(jobs) as ex:
        for i, res in ex.map(one, [(kind, i, all_props) for i in todo]):
            results[i] = res
            fired = res.get("caught_by", {})
            if "error" in res:
                print(f"{i}: {res['error']}", flush=True)
                bad += 1
            elif kind == "benign":
                print(f"{i}: " + ("silent ok" if not fired else "FALSE ALARM " + json.dumps({k: v[:3] for k, v in fired.items()})), flush=True)
                bad += bool(fired)
            else:
                t = res["target"]
                print(f"{i}: target {t}: " + ("CAUGHT " + str(fired[t][:2]) if t in fired else "MISSED") + ("; also " + str(sorted(k for k in fired if k != t)) if [k for k in fired if k != t] else ""), flush=True)
                bad += t not in fired
    if not ids:
        json.dump(results, open(os.path.join(sd, "RESULTS.json"), "w"), indent=1)
    print(f"{len(todo)} changes, {bad} not as expected")


if __name__ == "__main__":
    main()
