#!/usr/bin/env python3
"""Apply each seeded change under /verif/seeded/<id>/patch.diff to /repo, run the quick checks, undo the change.
usage: tools/run_seeded.py [--all-props] [seed-id ...]
Prints, per seed, which checks raised a VIOLATION (and the rule keys) and writes seeded/RESULTS.json.
The repository is always restored with `git -C /repo checkout -- .` (and untracked files the patch added removed)."""
import json
import os
import subprocess
import sys

HERE = os.path.dirname(os.path.dirname(os.path.abspath(__file__)))
REPO = "/repo"


def sh(cmd, **kw):
    return subprocess.run(cmd, shell=True, capture_output=True, text=True, **kw)


def claimed():
    m = json.load(open(os.path.join(HERE, "MANIFEST.json")))
    return [c["property_id"] for c in m["checks"]]


def main():
    only = None
    argv = list(sys.argv[1:])
    if "--props" in argv:
        i = argv.index("--props")
        only = argv[i + 1].split(",")
        del argv[i:i + 2]
    args = [a for a in argv if not a.startswith("--")]
    all_props = "--all-props" in sys.argv
    sd = os.path.join(HERE, "benign" if "--benign" in sys.argv else "seeded")
    seeds = args or sorted(d for d in os.listdir(sd) if os.path.isfile(os.path.join(sd, d, "patch.diff")))
    results = {}
    if sh(f"git -C {REPO} status --porcelain").stdout.strip():
        print("refusing: /repo working tree is not clean")
        sys.exit(2)
    for s in seeds:
        d = os.path.join(sd, s)
        meta = json.load(open(os.path.join(d, "meta.json"))) if os.path.exists(os.path.join(d, "meta.json")) else {}
        target = meta.get("property", s.split("-")[0])
        r = sh(f"git -C {REPO} apply {os.path.join(d, 'patch.diff')}")
        if r.returncode != 0:
            print(f"{s}: patch does not apply: {r.stderr.strip()[:200]}")
            results[s] = {"error": "patch does not apply"}
            continue
        try:
            benign = bool(meta.get("benign")) or "--benign" in sys.argv
            props = only or (claimed() if (all_props or benign) else [target])
            fired = {}
            for p in props:
                if p not in claimed():
                    fired[p] = "not claimed"
                    continue
                out = sh(f"./check {p} --tier quick", cwd=HERE)
                keys = []
                for line in out.stdout.splitlines():
                    if line.startswith("VIOLATION"):
                        rp = line.split("replay=")[-1].strip()
                        try:
                            keys.append(json.load(open(rp))["key"])
                        except Exception:
                            keys.append(rp)
                if keys:
                    fired[p] = keys
            results[s] = {"target": target, "caught_by": fired}
            if benign:
                print(f"{s}: benign edit: " + ("silent ok" if not fired else f"FALSE ALARM {fired}"))
                continue
            tgt = fired.get(target)
            print(f"{s}: target {target}: {'CAUGHT ' + str(tgt[:3]) if tgt and tgt != 'not claimed' else ('not claimed' if tgt == 'not claimed' else 'MISSED')}" +
                  (f"; also {[k for k in fired if k != target]}" if all_props and len(fired) > (1 if tgt else 0) else ""))
        finally:
            sh(f"git -C {REPO} checkout -- . && git -C {REPO} clean -fdq -- src")
    json.dump(results, open(os.path.join(sd, "RESULTS.json"), "w"), indent=1)


if __name__ == "__main__":
    main()
