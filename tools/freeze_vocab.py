#!/usr/bin/env python3
"""Regenerate engine/rules/vocab.json from /repo's current tree (default configuration). Run it only on a tree the
rules have been confirmed against (the unchanged tree); the file is committed and never written at check time."""
import json, os, sys
HERE = os.path.dirname(os.path.dirname(os.path.abspath(__file__)))
sys.path.insert(0, os.path.join(HERE, "engine", "rules"))
import core, vocab
if os.path.exists(vocab.VOCAB):
    os.rename(vocab.VOCAB, vocab.VOCAB + ".old")
path, h, cached = core.gen_facts("default", "/repo")
raw = json.load(open(path))
v = vocab.freeze(raw)
v["source_sha256"] = h
json.dump(v, open(vocab.VOCAB, "w"), indent=0, sort_keys=True)
if os.path.exists(vocab.VOCAB + ".old"):
    os.remove(vocab.VOCAB + ".old")
print("frozen", len(v["fns"]), "functions,", len(v["adts"]), "structs,", len(v["consts"]), "constants from", h[:16])
