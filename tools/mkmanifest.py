#!/usr/bin/env python3
"""Regenerate MANIFEST.json from the table below (claimed checks + not-applicable list)."""
import json, os
HERE = os.path.dirname(os.path.dirname(os.path.abspath(__file__)))
props = [json.loads(l) for l in open(os.path.join(HERE, "properties.jsonl"))]

CLAIMED = {
 "C01": ("scratch-board probe typestate + guard dominance + constant relations",
         "decides the structural clauses C01-EP/KING/CASTLE/FLAGS/CHECK/LABEL/PROMORANK/PROMO/ATTACKERS/PINS/PINRAY/CAPACITY (move list holds 218 moves, the attacker set is complete on every return path, pin masks and check mask influence every non-king move, pinned pawns keep captures along the ray, attacker set = union over all piece kinds, probe boards, castling preconditions, move-label encoding, capture/quiet labels vs occupancy of the destination set, pawn sources split by the pre-promotion rank, four promotion kinds once each), not the exactness of the move set"),
 "C02": ("field-write set inclusion, save/restore dataflow, mirrored edit lists",
         "decides the structural clauses C02-UNDO/HIST/BOARD3/EDITPAIR/FORWARD/REPORT (the saved-state stack has no capacity a legal game can exceed, undo writes what make writes, History save/restore, three board views written together, mirrored board edits, and the forward bookkeeping tables of make_move: castling-rights loss, en-passant target/victim, promotion placement, clock reset), not exact equality of states over all histories"),
 "C03": ("mutation/toggle pairing by dominance + sibling agreement of hash and toggles",
         "decides the structural clauses C03-PAIR/SCRATCH/TOGGLE/ACCESS/INIT (toggles xor exactly their words, accessors address their tables injectively, every hashed-state mutation paired with its key toggle, from-scratch hash and toggles read the same component families, init-only writers), not distinctness of the generated words"),
 "C04": ("panic-site cone enumeration over MIR asserts/calls, interval dischargers over constants and dominating guards, named class rules, taint of type extremes into unchecked score arithmetic",
         "decides absence of undischarged crash sites in the cone of search::search and TimeStrategy::new (C04-CONE), classification of every unchecked score-arithmetic call site incl. clamp-then-arith (C04-EVALOP) the return structure (C04-RET) and that the root node always searches a move (C04-ROOT, premise of the non-empty root line); does not decide termination or legality of an unverified hash move"),
 "C05": ("typestate abstract interpretation of UciCommand arms + lock-order graph",
         "decides the clauses C05-TS/SET/LOCK/NOBLOCK/HELD/STOPFLAG/LIMIT/PANIC/LATCH/GOARGS (every notifier of the latch holds the waiter's mutex, the clock arguments of go are read by a signed parser, the stop flag is only raised, raised whenever a handle is installed and honoured by the poll, only the payload-free time control is searched without a limit, the search thread's cone has no undischarged panic site, no guard other than the state mutex held across the search, no reachable latch wait without a pending set, set-after-bestmove, acyclic lock order, non-blocking arms) assuming the search terminates; not that each go is answered at its limit"),
 "C06": ("panic-site cone of the FEN reader with alphabet/match exhaustiveness checks, width-guard dominance, inverse letter tables extracted by path-sensitive symbolic walk",
         "decides the reader's panic-freedom on arbitrary text and rank-width rejection (C06-CONE/WIDTH), the writer's panic-freedom incl. fixed-capacity strings (C06-WCONE), reader/writer letter-table agreement (C06-TABLES), that the key of a position read from FEN equals the key maintained move by move (C06-KEY = the C03 clauses) and that the scalar fields are written unconditionally from their own Game field with inverse move-number formulas (C06-FIELDS); not the round-trip equalities as such"),
 "C07": ("constant relations (N = variants), get_unchecked index provenance, numeric evaluation of extracted shift/mask pairs on all 64 squares, exhaustive enumeration of the evaluated magic constants (107,648 cases) by the analyser",
         "decides 'every lookup lands inside its table' (C07-N/UNCHK/SQ/MAGIC), the wrap-mask mechanism (C07-WRAP), filler/lookup agreement (C07-SAMEIDX), that the filler stores an entry for every blocker subset (C07-FILL) that squares-between is non-empty only under an alignment test and that a walk starting on an end square removes it again (C07-BETWEEN) that leaper sets exclude the origin (C07-ORIGIN) and that the loop-free pawn and knight generators, evaluated by the analyser for every origin square and colour, equal the geometric definition (C07-LEAPGEN); not that the ray walker and the king generator (loops) compute the geometric definition"),
 "C08": ("guard dominance w.r.t. the PV-node flag, PV push discipline, mirrored mate-distance conversions, induction-variable provenance",
         "decides the mechanism clauses C08-PVGUARD/PVPUSH/MATEDIST/DEPTH/MATE/ASPWIN/ROOTRET/MATECONV/ZEROWIN/MATESRC/KEY (KEY = the C03 key clauses re-reported as the premise under which the unverified table move belongs to the position, early returns only off the root, mate conversions agree numerically, no zero-window score enters the PV, mate scores only from negamax, root score returned only from inside the searched aspiration window, no hash cut-off or forward pruning in PV nodes, guarded PV extension, mate-distance pairing, depth = iteration variable, mate only with zero legal moves), not legality or length of actual lines"),
 "C09": ("Err-edge reachability at every recursive call site, poll dominance, type-level immutability",
         "decides the unwinding clauses C09-ERR/UNDO/POLL/IMM/FALLBACK/PAIR per call site (so for every poll index at once; POLL includes that the poll honours the stop flag and has no undischarged panic site of its own), not the legality of later searches on the surviving tables"),
 "C10": ("provenance of yielded values, inequality-guard dominance, forward-only stage typestate",
         "decides the necessary clauses C10-SRC/DEDUP/STAGE/LOUD/LOUDSET/SEGMENTS (segment limits fixed before use, loud constructors emitted by the capture generator only, yielded moves come from the generated list or equal one of its elements, hash move never yielded twice and never rewritten while moves are handed out, a move pulled forward advances its segment boundary on every path, stages only advance and the parked losing captures are always revisited, captures-only picker stays loud), not the index arithmetic of the segments"),
 "C11": ("abstract execution of the material predicate over all piece-count models (path-sensitive symbolic walk), shape and threshold of the fifty-move predicate, shape of the repetition scan, caller guards",
         "decides the clauses C11-MATERIAL/FIFTY/REPKEY/CALLERS/CLOCK/HISTORY/KEY (KEY = the C03 key clauses as the premise of key-equality repetition, the scan is never skipped where four reversible plies are on record, copies of a Game carry the history, halfmove clock reset exactly on captures and pawn moves, dead-material verdicts for every count model, `clock >= 100 && has a legal move`, full-key comparison over a clock-bounded newest-first window, both search functions consult all three predicates, unconditionally or with every exempted node handed to a function that runs them - decided by a value-set analysis of the depth parameter); not the exactness of the repetition verdict over all game histories; clauses whose code is not in a recognisable form are reported as not decided, without alarm"),
 "C12": ("effect analysis over the search call-graph cone, reset-covers-writes field sets, forward slice of clock reads, static-mut writer sets",
         "decides the clauses C12-EFFECT/RESET/PERSEARCH/STATICS/SEED/SELECT (go depth / go infinite select the untimed control, the first search's table has the configured size on every command order, no nondeterminism source influences a depth-limited search - decided path by path over the poll functions -, reset covers every field the search writes and empties every table slot, every table initialiser runs before the command loop, per-search tables, init-only statics, constant seed), not equality of two actual runs"),
 "C13": ("guard dominance for zero-length division, advertise/handle set agreement, constant range relations, panic-site cone of the option consumers",
         "decides the clauses C13-ZERO/ADV/RANGE/NOLOCK/CONSUME/ACCEPT/NAME/TABLE (advertised names survive the parser's normalisation, an accepted Hash value always reaches the lock attempt, no undischarged panic site in the table's own methods with a possibly empty table (TABLE), no advertised value refused by its setter, no unguarded division by the table length, advertised == handled options, min<=default<=max and overflow-free size arithmetic, try_lock only, no undischarged panic site in the functions that consume a numeric option value), not that a search after each setting completes"),
 "C14": ("flow-sensitive dataflow to min/cap shape with evaluated constants, per-arm comparison extraction, token-to-clock wiring tables",
         "decides the limit clauses C14-CAP/EXACT/USE/WIRE/SELECT/POLL (limits written only by the constructor, no answer of the time poll ignores the clock except the stop throttle, no unpolled pass over the table in the search cone, time control chosen from the presence of go arguments for all 64 combinations, hard <= half of remaining after overhead, soft <= hard, movetime unchanged, correct limit polled, tokens wired to the matching colour's clock); the wall-clock clause is not decided (timing is outside static reach)"),
 "C15": ("sibling agreement of incremental and from-scratch term lists, who-may-write",
         "decides the structural clauses C15-PAIR/INV/SAME/WRITERS/INIT (tables read by the accumulator initialised before the command loop, nothing updates the accumulator after the undo restore, edit/accumulator pairing, inverse updates, same term functions over all squares, writers), not numeric equality as such"),
 "C16": ("expression-shape check of the tapered blend, mirrored table construction (symbolic builders, numerically evaluated index maps), constant interval bound over evaluated parameter tables",
         "decides the clauses C16-BLEND/MIRROR/BOUND/PACK/CONE (no undischarged panic site in the evaluation's cone incl. popcount-bounded table indices, no scan-order-dependent branch inside a piece-set loop, pack / unpack of the two-phase word agree numerically and the packed word is never divided or shifted as a whole, every evaluation term is added on every path to the blend, weights w and MAX-w of one clamped w, black tables = negated rank-flipped white tables from the same definitions, per-colour terms combined with the matching sign, evaluation bound strictly inside the mate threshold), not equality of mirrored evaluations for all positions"),
 "C17": ("inverse letter tables by symbolic walk, numeric agreement of evaluated castling constant tables, guard dominance in expect_matching and the position handler",
         "decides the text and table clauses C17-LETTERS/CASTLE/MATCH/FILTER/FORWARD/MOVEGEN/HISTORY/REPSCAN/KEY (FILTER = a predicate inside the move-text parser, evaluated by the analyser on every move triple legal games contain, refuses none of them; FORWARD, MOVEGEN, REPSCAN, KEY = the C02-FORWARD, C01, C11-REPKEY and C03 clauses re-reported as premises), not that the resulting position is the rules' position for every game (= C01 and C02 and C06)"),
 "C19": ("guard dominance on probe/store, index provenance, decision-table enumeration of the replacement predicate",
         "decides the structural clauses C19-KEY/POLICY/IDX/CLEAR/ZERO/GEN/WRITERS/PREF/FILLIND (POLICY covers whole-slot stores and in-place field updates: key and data written together under the predicate; PREF enumerates the replacement predicate over age, depth, bound kind and presence of a move), not arbitrary operation sequences"),
}
NA = {
 "C18": "relation between a produced string and the legal-move set of an arbitrary position; available structural clauses are far too weak to stand for it (see DESIGN.md)",
 "C20": "verdicts depend on the full attacker/x-ray constellation and piece values; no structural clause is a necessary condition robust to behaviour-preserving edits",
}
PENDING = "check not built yet in this session (planned per DESIGN.md §3); not claimed until it is"

m = {
 "version": 1,
 "setup_cmd": "./setup.sh",
 "hooks": {"guard": "jgilchrist_tcheran_verif", "enable": "none needed: static analysis reads the unmodified program (no hook commits in /repo)",
           "baseline_off_cmd": "cd /repo && cargo test --workspace --no-fail-fast --offline", "source_commits": [], "add_only": True},
 "engines": [{"name": "factgen+rules", "path": "engine/", "serves_properties": sorted(CLAIMED),
              "kind_free_text": "rustc_private MIR fact generator (nightly) + python static rules (edge dominance, slices, who-may-write, sibling agreement, constant relations, typestate abstract interpretation); thorough tier adds release/tuner configurations and a mutant/benign self-test of every rule"}],
 "checks": [], "not_applicable": [],
 "notes": "See DESIGN.md. Every check decides structural clauses of its property by static analysis of /repo's MIR on every run; none runs repository code. known_findings.json lists repaired defects (fixed:) and recorded findings.",
}
for p in props:
    i = p["id"]
    if i in CLAIMED:
        tech, note = CLAIMED[i]
        m["checks"].append({
            "property_id": i, "quick_cmd": f"./check {i} --tier quick", "thorough_cmd": f"./check {i} --tier thorough",
            "evidence_file": f"evidence/{i}.json", "replay_cmd_template": f"./check {i} --replay {{path}}", "engine": "factgen+rules",
            "level_claimed": {"category": "other",
                              "text": "static structural analysis over type-checked MIR: one obligation per syntactic site of each rule, so the verdict covers all inputs / histories / schedules at once for the clause decided; " + note,
                              "design_ref": f"DESIGN.md §3 {i}"},
            "level_note": "decides the structural clause(s), not the behaviour as a whole. Trusted base: rustc MIR / type resolution / const-eval, library leaves summarised, rule engine under engine/; thorough tier re-validates each rule against seeded mutants and benign edits",
            "technique": "static analysis: " + tech})
    else:
        m["not_applicable"].append({"property_id": i, "reason": NA.get(i, PENDING)})
json.dump(m, open(os.path.join(HERE, "MANIFEST.json"), "w"), indent=1)
print("claimed", sorted(CLAIMED), "n/a", [x["property_id"] for x in m["not_applicable"]])
